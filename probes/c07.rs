use super::bbspec;
use super::dump_tables::{BNM, DUMP, RNM};
use crate::chess::bitboard::Bitboard;
use crate::chess::movegen::tables;
use crate::chess::square::Square;

fn rook_sq(sq: u8) {
    tables::magics::verif_access::load(DUMP, RNM, BNM);
    let occ: u64 = kani::any();
    let got = tables::rook_attacks(Square::from_index(sq), Bitboard::new(occ)).as_u64();
    assert!(got == bbspec::rook_att(1u64 << sq, occ));
}
#[kani::proof]
fn c07_rook_27() { rook_sq(27); }
#[kani::proof]
fn c07_rook_any() { let s: u8 = kani::any(); kani::assume(s < 64); rook_sq(s); }
