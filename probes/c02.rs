use super::bbspec::{self, BPos};
use super::c01c::{any_full, game_of};
use crate::chess::game::Game;
use crate::chess::moves::Move;
use crate::chess::player::Player;
use crate::chess::zobrist;
use crate::engine::eval::IncrementalEvalFields;

fn boards_match(game: &Game, q: &[[u64; 6]; 2]) -> bool {
    let b = &game.board;
    b.pawns(Player::White).as_u64() == q[0][0]
        && b.knights(Player::White).as_u64() == q[0][1]
        && b.bishops(Player::White).as_u64() == q[0][2]
        && b.rooks(Player::White).as_u64() == q[0][3]
        && b.queens(Player::White).as_u64() == q[0][4]
        && b.king(Player::White).as_u64() == q[0][5]
        && b.pawns(Player::Black).as_u64() == q[1][0]
        && b.knights(Player::Black).as_u64() == q[1][1]
        && b.bishops(Player::Black).as_u64() == q[1][2]
        && b.rooks(Player::Black).as_u64() == q[1][3]
        && b.queens(Player::Black).as_u64() == q[1][4]
        && b.king(Player::Black).as_u64() == q[1][5]
}

#[kani::proof]
#[kani::unwind(7)]
fn c03_make_move_step() {
    zobrist::verif_access::load(super::dump_z::Z_PS, super::dump_z::Z_CA, super::dump_z::Z_EP, super::dump_z::Z_NE, super::dump_z::Z_ST);
    let p: BPos = any_full();
    kani::cover!(true);
    let mut c = 0;
    while c < 2 { let mut k = 0; while k < 6 { kani::assume(p.pcs[c][k].count_ones() <= 2); k += 1; } c += 1; }
    let mut game = game_of(&p);
    game.zobrist = zobrist::hash(&game);
    let w: u16 = kani::any();
    kani::assume(w != 0);
    let src = (w & 63) as u8;
    let dst = ((w >> 6) & 63) as u8;
    let flags = (w >> 12) as u8;
    let promo: u8 = if flags & 2 != 0 { match flags >> 2 { 0 => 2, 2 => 1, 1 => 3, _ => 4 } } else { 0 };
    kani::assume(bbspec::legal_raw(&p, src, dst, promo) == Some(w));
    let mv: Move = unsafe { std::mem::transmute::<u16, Move>(w) };
    game.make_move(mv);
    assert!(game.zobrist == zobrist::hash(&game));
    game.undo_move();
    assert!(boards_match(&game, &p.pcs));
    assert!(game.zobrist == zobrist::hash(&game));
    std::mem::forget(game);
}
