use crate::chess::fen;

#[kani::proof]
#[kani::unwind(30)]
fn c06_parse_concrete() {
    let r = fen::parse("8/8/8/8/8/8/8/K6k w - - 0 1");
    assert!(r.is_ok());
    std::mem::forget(r);
}

#[kani::proof]
#[kani::unwind(30)]
fn c06_parse_one_symbolic() {
    let mut bytes = *b"17/8/8/8/8/8/8/K6k w - - 0 1";
    let b: u8 = kani::any();
    kani::assume(b < 128);
    bytes[0] = b;
    let s = std::str::from_utf8(&bytes).unwrap();
    let r = fen::parse(s);
    kani::cover!(r.is_ok());
    std::mem::forget(r);
}
