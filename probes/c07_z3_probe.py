import z3, time, sys
# reimplementation of table init just for the probe (final machinery dumps from real code)
def bb(s): return 1<<s
M=(1<<64)-1
def ray_walk(sq, dirs, occ):
    a=0
    for df,dr in dirs:
        f,r=sq%8,sq//8
        while True:
            f+=df;r+=dr
            if not(0<=f<8 and 0<=r<8):break
            a|=bb(r*8+f)
            if occ&bb(r*8+f):break
    return a
def mask(sq,dirs):
    m=0
    for df,dr in dirs:
        f,r=sq%8,sq//8
        while True:
            f+=df;r+=dr
            if not(0<=f<8 and 0<=r<8):break
            nf,nr=f+df,r+dr
            if not(0<=nf<8 and 0<=nr<8):break
            m|=bb(r*8+f)
    return m
ROOK=[(1,0),(-1,0),(0,1),(0,-1)]
import re
src=open('/repo/src/chess/movegen/tables/magics.rs').read()
def parse(name):
    blk=src[src.index(name):]
    blk=blk[:blk.index('];')]
    return [(int(a,16),int(b)) for a,b in re.findall(r'\(0x([0-9A-Fa-f]+),\s*(\d+)\)',blk)]
RM=parse('DEFAULT_ROOK_MAGICS'); BM=parse('DEFAULT_BISHOP_MAGICS')
def subsets(m):
    s=0
    while True:
        yield s
        s=(s-m)&m
        if s==0:break
TABLE=[0]*87988
for sq in range(64):
    m=mask(sq,ROOK); nm=(~m)&M
    for s in subsets(m):
        idx=RM[sq][1]+((((s|nm)*RM[sq][0])&M)>>52)
        TABLE[idx]=ray_walk(sq,ROOK,s)
# symbolic ray walk spec
def sym_ray(sq, dirs, occ):
    res=z3.BitVecVal(0,64)
    for df,dr in dirs:
        f,r=sq%8,sq//8
        blocked=z3.BoolVal(False)
        while True:
            f+=df;r+=dr
            if not(0<=f<8 and 0<=r<8):break
            b=bb(r*8+f)
            res=res|z3.If(blocked,z3.BitVecVal(0,64),z3.BitVecVal(b,64))
            blocked=z3.Or(blocked,(occ&b)!=0)
    return res
def check(sq):
    occ=z3.BitVec('occ',64)
    magic,off=RM[sq]
    m=mask(sq,ROOK); nm=(~m)&M
    idx=z3.LShR((occ|nm)*magic,52)  # 12-bit
    lo=off; 
    # table slice as nested ite / array
    arr=z3.K(z3.BitVecSort(64),z3.BitVecVal(0,64))
    A=z3.Array('T',z3.BitVecSort(64),z3.BitVecSort(64))
    s=z3.Solver()
    for i in range(4096):
        if lo+i<87988:
            s.add(A[z3.BitVecVal(i,64)]==TABLE[lo+i])
    s.add(z3.Or(z3.UGE(idx+off, 87988), A[idx]!=sym_ray(sq,ROOK,occ)))
    t=time.time(); r=s.check(); return r,time.time()-t
for sq in [0,27,63]:
    print(sq,check(sq)); sys.stdout.flush()
