
use super::bbspec::{self, BPos};
use super::c01b::{s_rook, s_bishop, s_knight, s_king, s_pawn, s_between, monitor_push, WATCH, COUNT};
use crate::chess::bitboard::Bitboard;
use crate::chess::game::{CastleRights, Game};
use crate::chess::moves::MoveList;
use crate::chess::movegen::generate_legal_moves;
use crate::chess::piece::{Piece, PieceKind};
use crate::chess::player::{ByPlayer, Player};
use crate::chess::square::Square;
use crate::chess::zobrist::ZobristHash;
use crate::engine::eval::{IncrementalEvalFields, PhasedEval};

const KINDS: [PieceKind; 6] = [PieceKind::Pawn, PieceKind::Knight, PieceKind::Bishop, PieceKind::Rook, PieceKind::Queen, PieceKind::King];

fn piece_at_bit(pcs: &[[u64; 6]; 2], b: u64) -> Option<Piece> {
    if pcs[0][0] & b != 0 { Some(Piece::WHITE_PAWN) }
    else if pcs[0][1] & b != 0 { Some(Piece::WHITE_KNIGHT) }
    else if pcs[0][2] & b != 0 { Some(Piece::WHITE_BISHOP) }
    else if pcs[0][3] & b != 0 { Some(Piece::WHITE_ROOK) }
    else if pcs[0][4] & b != 0 { Some(Piece::WHITE_QUEEN) }
    else if pcs[0][5] & b != 0 { Some(Piece::WHITE_KING) }
    else if pcs[1][0] & b != 0 { Some(Piece::BLACK_PAWN) }
    else if pcs[1][1] & b != 0 { Some(Piece::BLACK_KNIGHT) }
    else if pcs[1][2] & b != 0 { Some(Piece::BLACK_BISHOP) }
    else if pcs[1][3] & b != 0 { Some(Piece::BLACK_ROOK) }
    else if pcs[1][4] & b != 0 { Some(Piece::BLACK_QUEEN) }
    else if pcs[1][5] & b != 0 { Some(Piece::BLACK_KING) }
    else { None }
}

fn mailbox(pcs: &[[u64; 6]; 2]) -> [Option<Piece>; 64] {
    let mut sq: [Option<Piece>; 64] = [None; 64];
    sq[0] = piece_at_bit(pcs, 1u64 << 0);
    sq[1] = piece_at_bit(pcs, 1u64 << 1);
    sq[2] = piece_at_bit(pcs, 1u64 << 2);
    sq[3] = piece_at_bit(pcs, 1u64 << 3);
    sq[4] = piece_at_bit(pcs, 1u64 << 4);
    sq[5] = piece_at_bit(pcs, 1u64 << 5);
    sq[6] = piece_at_bit(pcs, 1u64 << 6);
    sq[7] = piece_at_bit(pcs, 1u64 << 7);
    sq[8] = piece_at_bit(pcs, 1u64 << 8);
    sq[9] = piece_at_bit(pcs, 1u64 << 9);
    sq[10] = piece_at_bit(pcs, 1u64 << 10);
    sq[11] = piece_at_bit(pcs, 1u64 << 11);
    sq[12] = piece_at_bit(pcs, 1u64 << 12);
    sq[13] = piece_at_bit(pcs, 1u64 << 13);
    sq[14] = piece_at_bit(pcs, 1u64 << 14);
    sq[15] = piece_at_bit(pcs, 1u64 << 15);
    sq[16] = piece_at_bit(pcs, 1u64 << 16);
    sq[17] = piece_at_bit(pcs, 1u64 << 17);
    sq[18] = piece_at_bit(pcs, 1u64 << 18);
    sq[19] = piece_at_bit(pcs, 1u64 << 19);
    sq[20] = piece_at_bit(pcs, 1u64 << 20);
    sq[21] = piece_at_bit(pcs, 1u64 << 21);
    sq[22] = piece_at_bit(pcs, 1u64 << 22);
    sq[23] = piece_at_bit(pcs, 1u64 << 23);
    sq[24] = piece_at_bit(pcs, 1u64 << 24);
    sq[25] = piece_at_bit(pcs, 1u64 << 25);
    sq[26] = piece_at_bit(pcs, 1u64 << 26);
    sq[27] = piece_at_bit(pcs, 1u64 << 27);
    sq[28] = piece_at_bit(pcs, 1u64 << 28);
    sq[29] = piece_at_bit(pcs, 1u64 << 29);
    sq[30] = piece_at_bit(pcs, 1u64 << 30);
    sq[31] = piece_at_bit(pcs, 1u64 << 31);
    sq[32] = piece_at_bit(pcs, 1u64 << 32);
    sq[33] = piece_at_bit(pcs, 1u64 << 33);
    sq[34] = piece_at_bit(pcs, 1u64 << 34);
    sq[35] = piece_at_bit(pcs, 1u64 << 35);
    sq[36] = piece_at_bit(pcs, 1u64 << 36);
    sq[37] = piece_at_bit(pcs, 1u64 << 37);
    sq[38] = piece_at_bit(pcs, 1u64 << 38);
    sq[39] = piece_at_bit(pcs, 1u64 << 39);
    sq[40] = piece_at_bit(pcs, 1u64 << 40);
    sq[41] = piece_at_bit(pcs, 1u64 << 41);
    sq[42] = piece_at_bit(pcs, 1u64 << 42);
    sq[43] = piece_at_bit(pcs, 1u64 << 43);
    sq[44] = piece_at_bit(pcs, 1u64 << 44);
    sq[45] = piece_at_bit(pcs, 1u64 << 45);
    sq[46] = piece_at_bit(pcs, 1u64 << 46);
    sq[47] = piece_at_bit(pcs, 1u64 << 47);
    sq[48] = piece_at_bit(pcs, 1u64 << 48);
    sq[49] = piece_at_bit(pcs, 1u64 << 49);
    sq[50] = piece_at_bit(pcs, 1u64 << 50);
    sq[51] = piece_at_bit(pcs, 1u64 << 51);
    sq[52] = piece_at_bit(pcs, 1u64 << 52);
    sq[53] = piece_at_bit(pcs, 1u64 << 53);
    sq[54] = piece_at_bit(pcs, 1u64 << 54);
    sq[55] = piece_at_bit(pcs, 1u64 << 55);
    sq[56] = piece_at_bit(pcs, 1u64 << 56);
    sq[57] = piece_at_bit(pcs, 1u64 << 57);
    sq[58] = piece_at_bit(pcs, 1u64 << 58);
    sq[59] = piece_at_bit(pcs, 1u64 << 59);
    sq[60] = piece_at_bit(pcs, 1u64 << 60);
    sq[61] = piece_at_bit(pcs, 1u64 << 61);
    sq[62] = piece_at_bit(pcs, 1u64 << 62);
    sq[63] = piece_at_bit(pcs, 1u64 << 63);
    sq
}

fn single(b: u64) -> bool { b != 0 && b & (b - 1) == 0 }

/// Fully symbolic legal-looking position: 12 disjoint bitboards, one king each.
pub fn any_full() -> BPos {
    let pcs: [[u64; 6]; 2] = [[kani::any(), kani::any(), kani::any(), kani::any(), kani::any(), kani::any()], [kani::any(), kani::any(), kani::any(), kani::any(), kani::any(), kani::any()]];
    // pairwise disjoint: the sum of popcounts equals popcount of the union <=> xor-fold equals or-fold
    let mut or = 0u64;
    let mut c = 0;
    while c < 2 { let mut k = 0; while k < 6 { kani::assume(or & pcs[c][k] == 0); or |= pcs[c][k]; k += 1; } c += 1; }
    kani::assume(single(pcs[0][5]) && single(pcs[1][5]));
    kani::assume((pcs[0][0] | pcs[1][0]) & (bbspec::RANK_1 | bbspec::RANK_8) == 0);
    let occ = or;
    let white_to_move: bool = kani::any();
    let rights: [[bool; 2]; 2] = [[kani::any(), kani::any()], [kani::any(), kani::any()]];
    kani::assume(!rights[0][0] || (pcs[0][5] == 1 << 4 && pcs[0][3] & (1 << 7) != 0));
    kani::assume(!rights[0][1] || (pcs[0][5] == 1 << 4 && pcs[0][3] & 1 != 0));
    kani::assume(!rights[1][0] || (pcs[1][5] == 1 << 60 && pcs[1][3] & (1 << 63) != 0));
    kani::assume(!rights[1][1] || (pcs[1][5] == 1 << 60 && pcs[1][3] & (1 << 56) != 0));
    let ep: u8 = kani::any();
    kani::assume(ep <= 64);
    if ep < 64 {
        let e = 1u64 << ep;
        if white_to_move {
            kani::assume(ep / 8 == 5 && occ & (e | e << 8) == 0 && pcs[1][0] & (e >> 8) != 0);
        } else {
            kani::assume(ep / 8 == 2 && occ & (e | e >> 8) == 0 && pcs[0][0] & (e << 8) != 0);
        }
    }
    let (us, them) = if white_to_move { (0, 1) } else { (1, 0) };
    kani::assume(!bbspec::attacked(&pcs, occ, pcs[them][5], us));
    BPos { pcs, white_to_move, rights, ep }
}

pub fn game_of(p: &BPos) -> Game {
    let board = crate::chess::board::verif_access::board_from(&p.pcs, mailbox(&p.pcs));
    Game {
        player: if p.white_to_move { Player::White } else { Player::Black },
        board,
        castle_rights: ByPlayer::new(
            CastleRights { king_side: p.rights[0][0], queen_side: p.rights[0][1] },
            CastleRights { king_side: p.rights[1][0], queen_side: p.rights[1][1] },
        ),
        en_passant_target: if p.ep < 64 { Some(Square::from_index(p.ep)) } else { None },
        halfmove_clock: 0,
        plies: 0,
        zobrist: ZobristHash(0),
        incremental_eval: IncrementalEvalFields { phase_value: 0, piece_square_tables: PhasedEval::ZERO },
        history: Vec::new(),
    }
}

type ML = MoveList;
type BB = Bitboard;
fn no_pawn_caps(_: &mut ML, _: &Game, _: BB, _: Square, _: BB, _: BB, _: BB, _: BB, _: BB) {}
fn no_pawn_quiets(_: &mut ML, _: &Game, _: BB, _: BB, _: BB, _: BB, _: BB) {}
fn no_piece5(_: &mut ML, _: BB, _: BB, _: BB, _: BB, _: BB) {}
fn no_piece6(_: &mut ML, _: BB, _: BB, _: BB, _: BB, _: BB, _: BB) {}
fn no_king(_: &mut ML, _: &Game, _: Square, _: BB) {}
fn no_castles(_: &mut ML, _: &Game, _: BB) {}

/// count of pushes equal to the watched raw move must be 1 iff it is the encoding of a legal
/// move whose moving piece is of kind `kind`, else 0.
fn check_kind(kind: usize, max_own: u32, wtm: bool, ksq: u8) {
    let p = any_full();
    kani::assume(p.white_to_move == wtm);
    kani::assume(p.pcs[if wtm {0} else {1}][5] == 1u64 << ksq);
    let us = if p.white_to_move { 0 } else { 1 };
    kani::assume(p.pcs[us][kind].count_ones() <= max_own);
    if kind == 2 || kind == 3 { kani::assume((p.pcs[us][kind] | p.pcs[us][4]).count_ones() <= max_own); }
    let game = game_of(&p);
    let w: u16 = kani::any();
    kani::assume(w != 0);
    unsafe { WATCH = w; COUNT = 0; }
    let mut moves = MoveList::new();
    generate_legal_moves(&game, &mut moves);
    let src = (w & 63) as u8;
    let dst = ((w >> 6) & 63) as u8;
    let flags = (w >> 12) as u8;
    let promo: u8 = if flags & 2 != 0 { match flags >> 2 { 0 => 2, 2 => 1, 1 => 3, _ => 4 } } else { 0 };
    let sb = 1u64 << src;
    let of_kind = if kind == 2 { (p.pcs[us][2] | p.pcs[us][4]) & sb != 0 } else { p.pcs[us][kind] & sb != 0 };
    let expect = of_kind && bbspec::legal_raw(&p, src, dst, promo) == Some(w);
    let count = unsafe { COUNT };
    assert!(count == if expect { 1 } else { 0 });
    kani::cover!(expect);
    std::mem::forget(game);
}

fn check_kind_small<const EXTRA: usize>(kind: usize) {
    let p = super::c01b::any_bpos::<EXTRA>();
    let us = if p.white_to_move { 0 } else { 1 };
    let game = game_of(&p);
    let w: u16 = kani::any();
    kani::assume(w != 0);
    unsafe { WATCH = w; COUNT = 0; }
    let mut moves = MoveList::new();
    generate_legal_moves(&game, &mut moves);
    let src = (w & 63) as u8;
    let dst = ((w >> 6) & 63) as u8;
    let flags = (w >> 12) as u8;
    let promo: u8 = if flags & 2 != 0 { match flags >> 2 { 0 => 2, 2 => 1, 1 => 3, _ => 4 } } else { 0 };
    let sb = 1u64 << src;
    let of_kind = if kind == 2 { (p.pcs[us][2] | p.pcs[us][4]) & sb != 0 } else { p.pcs[us][kind] & sb != 0 };
    let expect = of_kind && bbspec::legal_raw(&p, src, dst, promo) == Some(w);
    let count = unsafe { COUNT };
    assert!(count == if expect { 1 } else { 0 });
    kani::cover!(expect);
    std::mem::forget(game);
}

#[kani::proof]
#[kani::unwind(9)]
#[kani::stub(crate::chess::movegen::tables::magics::rook_attacks, s_rook)]
#[kani::stub(crate::chess::movegen::tables::magics::bishop_attacks, s_bishop)]
#[kani::stub(crate::chess::movegen::tables::knights::knight_attacks, s_knight)]
#[kani::stub(crate::chess::movegen::tables::king::king_attacks, s_king)]
#[kani::stub(crate::chess::movegen::tables::pawns::pawn_attacks, s_pawn)]
#[kani::stub(crate::chess::movegen::tables::between::between, s_between)]
#[kani::stub(arrayvec::ArrayVec::push, monitor_push)]
#[kani::stub(crate::chess::movegen::gen::generate_pawn_captures, no_pawn_caps)]
#[kani::stub(crate::chess::movegen::gen::generate_pawn_quiets, no_pawn_quiets)]
#[kani::stub(crate::chess::movegen::gen::generate_diagonal_slider_captures, no_piece6)]
#[kani::stub(crate::chess::movegen::gen::generate_diagonal_slider_quiets, no_piece5)]
#[kani::stub(crate::chess::movegen::gen::generate_orthogonal_slider_captures, no_piece6)]
#[kani::stub(crate::chess::movegen::gen::generate_orthogonal_slider_quiets, no_piece5)]
#[kani::stub(crate::chess::movegen::gen::generate_king_captures, no_king)]
#[kani::stub(crate::chess::movegen::gen::generate_king_quiets, no_king)]
#[kani::stub(crate::chess::movegen::gen::generate_castles, no_castles)]
fn c01c_knights() {
    check_kind(1, 8, true, 28);
}

#[kani::proof]
#[kani::unwind(9)]
#[kani::stub(crate::chess::movegen::tables::magics::rook_attacks, s_rook)]
#[kani::stub(crate::chess::movegen::tables::magics::bishop_attacks, s_bishop)]
#[kani::stub(crate::chess::movegen::tables::knights::knight_attacks, s_knight)]
#[kani::stub(crate::chess::movegen::tables::king::king_attacks, s_king)]
#[kani::stub(crate::chess::movegen::tables::pawns::pawn_attacks, s_pawn)]
#[kani::stub(crate::chess::movegen::tables::between::between, s_between)]
#[kani::stub(arrayvec::ArrayVec::push, monitor_push)]
#[kani::stub(crate::chess::movegen::gen::generate_pawn_captures, no_pawn_caps)]
#[kani::stub(crate::chess::movegen::gen::generate_pawn_quiets, no_pawn_quiets)]
#[kani::stub(crate::chess::movegen::gen::generate_diagonal_slider_captures, no_piece6)]
#[kani::stub(crate::chess::movegen::gen::generate_diagonal_slider_quiets, no_piece5)]
#[kani::stub(crate::chess::movegen::gen::generate_orthogonal_slider_captures, no_piece6)]
#[kani::stub(crate::chess::movegen::gen::generate_orthogonal_slider_quiets, no_piece5)]
#[kani::stub(crate::chess::movegen::gen::generate_king_captures, no_king)]
#[kani::stub(crate::chess::movegen::gen::generate_king_quiets, no_king)]
#[kani::stub(crate::chess::movegen::gen::generate_castles, no_castles)]
fn c01c_knights_small3() {
    check_kind_small::<3>(1);
}
