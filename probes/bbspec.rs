//! Straight-line bitboard geometry + make-then-test legality oracle.
pub const FILE_A: u64 = 0x0101_0101_0101_0101;
pub const FILE_H: u64 = 0x8080_8080_8080_8080;
pub const NOT_A: u64 = !FILE_A;
pub const NOT_H: u64 = !FILE_H;
pub const RANK_1: u64 = 0xff;
pub const RANK_2: u64 = 0xff00;
pub const RANK_7: u64 = 0x00ff_0000_0000_0000;
pub const RANK_8: u64 = 0xff00_0000_0000_0000;

#[inline] fn n(b: u64) -> u64 { b << 8 }
#[inline] fn s(b: u64) -> u64 { b >> 8 }
#[inline] fn e(b: u64) -> u64 { (b << 1) & NOT_A }
#[inline] fn w(b: u64) -> u64 { (b >> 1) & NOT_H }
#[inline] fn ne(b: u64) -> u64 { (b << 9) & NOT_A }
#[inline] fn nw(b: u64) -> u64 { (b << 7) & NOT_H }
#[inline] fn se(b: u64) -> u64 { (b >> 7) & NOT_A }
#[inline] fn sw(b: u64) -> u64 { (b >> 9) & NOT_H }

macro_rules! ray {
    ($step:ident, $from:expr, $occ:expr) => {{
        // squares reached walking from `from` (one bit) until (and including) the first blocker
        let free = !$occ;
        let mut r = $step($from);
        r |= $step(r & free);
        r |= $step(r & free);
        r |= $step(r & free);
        r |= $step(r & free);
        r |= $step(r & free);
        r |= $step(r & free);
        r
    }};
}

pub fn rook_att(from: u64, occ: u64) -> u64 {
    ray!(n, from, occ) | ray!(s, from, occ) | ray!(e, from, occ) | ray!(w, from, occ)
}
pub fn bishop_att(from: u64, occ: u64) -> u64 {
    ray!(ne, from, occ) | ray!(nw, from, occ) | ray!(se, from, occ) | ray!(sw, from, occ)
}
pub fn knight_att(b: u64) -> u64 {
    ne(n(b)) | ne(e(b)) | se(e(b)) | se(s(b)) | sw(s(b)) | sw(w(b)) | nw(w(b)) | nw(n(b))
}
pub fn king_att(b: u64) -> u64 {
    n(b) | s(b) | e(b) | w(b) | ne(b) | nw(b) | se(b) | sw(b)
}
/// squares attacked by pawns `b` of the given colour
pub fn pawn_att(b: u64, white: bool) -> u64 {
    if white { ne(b) | nw(b) } else { se(b) | sw(b) }
}
pub fn between(a: u64, b: u64) -> u64 {
    let mut out = 0u64;
    macro_rules! dir { ($step:ident) => {{ let r = ray!($step, a, b); if r & b != 0 { out |= r & !b; } }}; }
    dir!(n); dir!(s); dir!(e); dir!(w); dir!(ne); dir!(nw); dir!(se); dir!(sw);
    out
}

#[derive(Clone, Copy)]
pub struct BPos {
    /// [colour][kind] kind: 0 P,1 N,2 B,3 R,4 Q,5 K ; colour 0 white 1 black
    pub pcs: [[u64; 6]; 2],
    pub white_to_move: bool,
    pub rights: [[bool; 2]; 2], // [colour][0 king side, 1 queen side]
    pub ep: u8,                 // 64 none
}

impl BPos {
    pub fn occ_of(&self, c: usize) -> u64 {
        let p = &self.pcs[c];
        p[0] | p[1] | p[2] | p[3] | p[4] | p[5]
    }
    pub fn occ(&self) -> u64 { self.occ_of(0) | self.occ_of(1) }
}

/// is the single square `sq` attacked by colour `by` given piece boards and occupancy
pub fn attacked(p: &[[u64; 6]; 2], occ: u64, sq: u64, by: usize) -> bool {
    let them = &p[by];
    // a pawn of colour `by` attacks sq iff it stands where a pawn of the other colour on sq would capture
    (pawn_att(sq, by == 1) & them[0]) != 0
        || (knight_att(sq) & them[1]) != 0
        || (bishop_att(sq, occ) & (them[2] | them[4])) != 0
        || (rook_att(sq, occ) & (them[3] | them[4])) != 0
        || (king_att(sq) & them[5]) != 0
}

/// Expected raw 16-bit encoding if (src,dst,promo) is legal; None otherwise.
/// promo: 0 none, 1 N, 2 B, 3 R, 4 Q (kind index).
pub fn legal_raw(p: &BPos, src: u8, dst: u8, promo: u8) -> Option<u16> {
    let us = if p.white_to_move { 0 } else { 1 };
    let them = 1 - us;
    let sb = 1u64 << src;
    let db = 1u64 << dst;
    let own = p.occ_of(us);
    let opp = p.occ_of(them);
    let occ = own | opp;
    if sb & own == 0 || db & own != 0 || src == dst { return None; }
    if db & p.pcs[them][5] != 0 { return None; }
    let mine = &p.pcs[us];
    let kind: usize = if sb & mine[0] != 0 { 0 } else if sb & mine[1] != 0 { 1 } else if sb & mine[2] != 0 { 2 }
        else if sb & mine[3] != 0 { 3 } else if sb & mine[4] != 0 { 4 } else { 5 };
    let white = p.white_to_move;
    let mut capture = db & opp != 0;
    let mut ep = false;
    let mut castle = false;
    let epb = if p.ep < 64 { 1u64 << p.ep } else { 0 };
    let ok = match kind {
        0 => {
            let one = (if white { n(sb) } else { s(sb) }) & !occ;
            let start = if white { RANK_2 } else { RANK_7 };
            let two = if sb & start != 0 { (if white { n(one) } else { s(one) }) & !occ } else { 0 };
            let caps = pawn_att(sb, white);
            if db & (one | two) != 0 { true }
            else if db & caps & opp != 0 { true }
            else if db & caps & epb != 0 { ep = true; capture = true; true }
            else { false }
        }
        1 => db & knight_att(sb) != 0,
        2 => db & bishop_att(sb, occ) != 0,
        3 => db & rook_att(sb, occ) != 0,
        4 => db & (bishop_att(sb, occ) | rook_att(sb, occ)) != 0,
        _ => {
            if db & king_att(sb) != 0 { true } else {
                let home: u8 = if white { 4 } else { 60 };
                let hb = 1u64 << home;
                if src == home && !attacked(&p.pcs, occ, sb, them) {
                    if dst == home + 2 {
                        castle = true;
                        p.rights[us][0] && occ & (hb << 1 | hb << 2) == 0 && mine[3] & (hb << 3) != 0
                            && !attacked(&p.pcs, occ, hb << 1, them)
                    } else if dst == home - 2 {
                        castle = true;
                        p.rights[us][1] && occ & (hb >> 1 | hb >> 2 | hb >> 3) == 0 && mine[3] & (hb >> 4) != 0
                            && !attacked(&p.pcs, occ, hb >> 1, them)
                    } else { false }
                } else { false }
            }
        }
    };
    if !ok { return None; }
    let last = if white { RANK_8 } else { RANK_1 };
    let promotes = kind == 0 && db & last != 0;
    if promotes != (promo != 0) { return None; }

    // make the move
    let mut q = p.pcs;
    q[us][kind] &= !sb;
    let landed = if promo != 0 { promo as usize } else { kind };
    q[us][landed] |= db;
    let mut k = 0;
    while k < 6 { q[them][k] &= !db; k += 1; }
    if ep { let victim = if white { s(db) } else { n(db) }; q[them][0] &= !victim; }
    if castle {
        if dst > src { q[us][3] &= !(db << 1); q[us][3] |= db >> 1; } else { q[us][3] &= !(db >> 2); q[us][3] |= db << 1; }
    }
    let occ2 = q[0][0] | q[0][1] | q[0][2] | q[0][3] | q[0][4] | q[0][5] | q[1][0] | q[1][1] | q[1][2] | q[1][3] | q[1][4] | q[1][5];
    if attacked(&q, occ2, q[us][5], them) { return None; }

    let mut flags: u16 = 0;
    if capture { flags |= 1; }
    if promo != 0 {
        flags |= 2 | match promo { 2 => 0, 1 => 8, 3 => 4, _ => 12 };
    } else if ep || castle { flags |= 4; }
    Some((src as u16) | ((dst as u16) << 6) | (flags << 12))
}
