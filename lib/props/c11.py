from vdriver import Job

ID = "C11"
LEVEL = "model_checking"
MAIN = "c11"
MODULES = ["geom", "pos", "stubs", "step", "c11"]
ACCESS = None
DUMP = []
PARALLEL = 15

META = {
    "functions_encoded": ["chess::game::Game::{is_stalemate_by_insufficient_material, is_stalemate_by_fifty_move_rule, is_repeated_position, make_move}",
                          "chess::board::Board::{occupancy, occupancy_for, all_knights, all_bishops, all_kings}", "chess::bitboard::Bitboard::count"],
    "stubs": ["chess::movegen::gen::generate_legal_moves -> emits an arbitrary number n <= 3 of arbitrary moves (fifty-move harness only; the generator itself is C01)"],
    "bounds": ["material: any board with one king each, no bound", "repetition window: history of up to 6 entries with arbitrary keys, any clock (unwind 9)",
               "history entry / clock rule: any valid position, any legal move, one step (histories follow by induction)"],
    "outside": ["'key equal <=> position equal' is 64-bit hashing and is assumed (C03 shows the key is a function of the position)",
                "null moves inside the window: make_null_move pushes an entry without advancing the clock, so the window loses its oldest position per null "
                "move (search-internal; game histories contain no null moves) - observed, not part of the property"],
    "assumptions": ["history entry i carries the key of position i (c11_history_entry + C03)"],
    "trusted_base": ["kani 0.68.0", "cbmc 6.11.0", "cadical"],
    "explanation": "Window kernel on arbitrary histories + inductive step for what make_move pushes and how the clock delimits the window.",
}
MANIFEST = {
    "text": "Bounded model checking: (1) dead-material verdict on EVERY board (twelve symbolic bitboards) against the statement's clauses; (2) fifty-move "
            "draw <=> clock >= 100 and at least one legal move, all u32 clocks; (3) repetition reported <=> one of the last halfmove_clock history "
            "entries carries the current key, for arbitrary histories of up to 6 entries, arbitrary keys and clocks (incl. FEN starts with clock > 0 and "
            "no history); (4) inductive step: from any valid position and legal move, make_move pushes exactly the key and clock of the position left "
            "behind and resets/increments the clock as the rules say, which is what makes 'last halfmove_clock entries' mean 'since the last capture or "
            "pawn move' along every game history.",
    "note": "Key equality stands for position equality (64-bit hashing); null moves in the window are outside the property.",
    "design_ref": "DESIGN.md s.4 C11",
}


KINDS = ["pawn", "knight", "bishop", "rook", "queen", "king"]


def jobs(tier, seed):
    js = [
        Job("c11_material", "insufficient-material verdict vs the statement on every board", timeout=900, checks="functional", min_covers=2),
        Job("c11_fifty_move", "fifty-move rule for all clocks x (0..3 legal moves)", timeout=900, min_covers=2),
        Job("c11_repetition_window", "is_repeated_position on arbitrary histories (<= 6 entries), keys, clocks", timeout=1200, min_covers=2),
    ]
    if tier == "thorough":
        js.append(Job("c11_repetition_window_12", "is_repeated_position on arbitrary histories (<= 12 entries), keys, clocks",
                      gen="#[kani::proof]\n#[kani::unwind(15)]\npub fn c11_repetition_window_12() { c11::repetition_window(12); }\n", timeout=3600, mem_gb=16, min_covers=2))
    for kind in range(6):
        for side in (0, 1):
            name = f"c11_history_entry_{KINDS[kind]}_{'wb'[side]}"
            src = f"#[kani::proof]\npub fn {name}() {{ c11::history_entry({kind}, {side}); }}\n"
            js.append(Job(name, f"make_move of a {KINDS[kind]} ({'white' if side == 0 else 'black'}) pushes (key, clock) of the position left behind; clock rule", gen=src,
                          timeout=2400, mem_gb=16, checks="functional", witness=False))
    return js


def decode(job, vals):
    return {"any_values_le": [int.from_bytes(bytes(v), "little") for v in vals[:16]]}
