from vdriver import Job

ID = "C16"
LEVEL = "model_checking"
MAIN = "c16"
ACCESS = None
PARALLEL = 8

GEOM_STUBS = [
    ("crate::chess::movegen::tables::magics::rook_attacks", "stubs::s_rook"),
    ("crate::chess::movegen::tables::magics::bishop_attacks", "stubs::s_bishop"),
    ("crate::chess::movegen::tables::knights::knight_attacks", "stubs::s_knight"),
    ("crate::chess::movegen::tables::king::king_attacks", "stubs::s_king"),
    ("crate::chess::movegen::tables::pawns::pawn_attacks", "stubs::s_pawn"),
    ("crate::chess::movegen::tables::between::between", "stubs::s_between"),
]

META = {
    "functions_encoded": ["engine::eval::phased_eval::PhasedEval::{new, midgame, endgame, for_phase, add, sub, neg}, phase_value, piece_phase_value_contribution",
                          "engine::eval::piece_square_tables::{eval, piece_contributions}", "engine::eval::material::{eval, bishop_pair_eval}",
                          "engine::eval::pawn_structure::{eval, eval_passed_pawns, calculate_passed_pawn_bonus, is_passed}", "engine::eval::mobility_and_king_safety::eval",
                          "engine::eval::{eval, absolute_eval, absolute_eval_with_trace}, Eval::from_white_eval",
                          "parameter tables: piece-square tables, passed-pawn masks and table as produced by the real init() of this tree (native dump); mobility/king-safety "
                          "tables are compile-time constants of the crate"],
    "stubs": ["six table look-ups -> geometry (C07) in the mobility and whole-evaluation harnesses"],
    "bounds": ["blend: ALL i16 (mg, eg) pairs that can be packed, phase 0..88", "piece-square / phase / bishop-pair / passed-pawn terms: any valid position (reachable material for the "
               "piece-square term, <= 8 pawns a side for the pawn term), 64-square loops fully unwound",
               "mobility term and whole evaluation: officers per kind and colour <= 1 (quick) / 2 (thorough) because the term loops over them"],
    "outside": ["boundedness |eval| < 31900 for material beyond the whole-evaluation harness's bound (e.g. nine queens a side) - only the piece-square term's halves are shown "
                "to stay inside i16 for all reachable material"],
    "assumptions": ["validity predicate of harness/verif/pos.rs; mirror = colour swap + rank flip on the oracle's bitboards"],
    "trusted_base": ["kani 0.68.0", "cbmc 6.11.0", "cadical", "C07"],
    "explanation": "Blend kernel over all inputs; per-term antisymmetry under mirroring on symbolic boards; whole evaluation on bounded material.",
}
MANIFEST = {
    "text": "Bounded model checking: (1) for_phase lies between its middlegame and endgame inputs for ALL packable pairs and every phase 0..88 (weights never "
            "negative), packing round-trips, packed negation/addition act half-wise; (2) per term on fully symbolic valid positions with the real parameter tables: "
            "term(mirror(P)) == -term(P) for the piece-square+material term (any reachable material, halves stay inside i16 with overflow checks on), the bishop-pair "
            "term, the passed-pawn term (<= 8 pawns a side), the game-phase counter, and - officers bounded - the mobility/king-safety term; (3) the whole "
            "evaluation from the mover's view equals that of the mirrored position and lies strictly inside the non-mate band on bounded material.",
    "note": "Mobility term and whole evaluation only for <= 1 (quick) / 2 (thorough) officers per kind and colour; boundedness for extreme material shown per term (piece-square) only.",
    "design_ref": "DESIGN.md s.4 C16",
}
DUMP = ["PST", "PP"]
MODULES = ["geom", "pos", "stubs", "c16"]


def inst(kind, k, pawns=0):
    if kind == "mobility":
        name = f"c16_sym_mobility_k{k}"
        body = f"c16::sym_mobility({k});"
    else:
        name = f"c16_total_k{k}p{pawns}"
        body = f"c16::total({k}, {pawns});"
    attrs = ["#[kani::proof]", f"#[kani::unwind({66 if kind == 'total' else max(k, 7) + 2})]"] + [f"#[kani::stub({a}, {b})]" for a, b in GEOM_STUBS]
    return name, "\n".join(attrs) + f"\npub fn {name}() {{ {body} }}\n"


def jobs(tier, seed):
    k = 2 if tier == "thorough" else 1
    t = 7200 if tier == "thorough" else 2400
    js = [
        Job("c16_blend", "for_phase(mg, eg, phase) lies between mg and eg for all pairs and phases 0..88", timeout=900, min_covers=2),
        Job("c16_pack", "PhasedEval::new/midgame/endgame round trip for all packable pairs", timeout=300),
        Job("c16_neg_add", "packed negation / addition / subtraction act half-wise", timeout=300),
        Job("c16_sym_pst", "piece-square+material term antisymmetric under mirroring, any reachable material, no overflow", timeout=t, mem_gb=24, witness=False),
        Job("c16_sym_phase", "game phase colour-blind and equal to 1/1/2/4 per N/B/R/Q, any valid position", timeout=t, mem_gb=16, witness=False, checks="functional"),
        Job("c16_sym_material", "bishop-pair term antisymmetric under mirroring", timeout=900, witness=False, checks="functional"),
        Job("c16_sym_pawns", "passed-pawn term antisymmetric under mirroring, <= 8 pawns a side", timeout=t, mem_gb=24, witness=False, checks="functional"),
    ]
    n, src = inst("mobility", k)
    js.append(Job(n, f"mobility/king-safety term antisymmetric under mirroring, <= {k} officers per kind and colour", gen=src, timeout=t, mem_gb=24, witness=False,
                  checks="functional", params={"per_kind": k}))
    n, src = inst("total", k, 2 if tier != "thorough" else 4)
    js.append(Job(n, f"eval(mirror(P)) == eval(P) from the mover's view, inside the non-mate band, <= {k} officers per kind and colour", gen=src, timeout=t, mem_gb=24,
                  witness=False, params={"per_kind": k}))
    return js


def decode(job, vals):
    return None
