from vdriver import Job

ID = "C16"
LEVEL = "model_checking"
MAIN = "c16"
ACCESS = None
PARALLEL = 8

GEOM_STUBS = [
    ("crate::chess::movegen::tables::magics::rook_attacks", "stubs::s_rook"),
    ("crate::chess::movegen::tables::magics::bishop_attacks", "stubs::s_bishop"),
    ("crate::chess::movegen::tables::knights::knight_attacks", "stubs::s_knight"),
    ("crate::chess::movegen::tables::king::king_attacks", "stubs::s_king"),
    ("crate::chess::movegen::tables::pawns::pawn_attacks", "stubs::s_pawn"),
    ("crate::chess::movegen::tables::between::between", "stubs::s_between"),
]

META = {
    "functions_encoded": ["engine::eval::phased_eval::PhasedEval::{new, midgame, endgame, for_phase, add, sub, neg}",
                          "engine::eval::piece_square_tables::piece_contributions (real tables)", "engine::eval::pawn_structure::{is_passed, enemy_passed_pawn_mask, pst_value} (real masks/table)",
                          "engine::eval::material::{eval, bishop_pair_eval}",
                          "thorough only: piece_square_tables::eval, phase_value, pawn_structure::eval, mobility_and_king_safety::eval, eval::eval on symbolic boards",
                          "parameter tables: piece-square tables, passed-pawn masks and table as produced by the real init() of this tree (native dump)"],
    "stubs": ["six table look-ups -> geometry (C07) in the thorough mobility and whole-evaluation harnesses only",
              "c16_compose only: material::eval, mobility_and_king_safety::eval, pawn_structure::eval -> one arbitrary fixed packed value each (uninterpreted functions of the game); "
              "the native replay runs the real functions on valid positions with their real accumulators"],
    "bounds": ["blend: ALL i16 (mg, eg) pairs that can be packed, phase 0..88", "per-man lemmas: every colour, kind, square; every enemy pawn set",
               "bishop-pair term: any valid position", "mobility/king-safety: the evaluated side has at most one officer (kind by case split), everything else symbolic; "
               "with several officers the term is the sum of the per-officer look-ups plus a king-zone count over the UNION of their attack sets - not decided beyond one officer", "thorough whole-term harnesses: see their descriptions (officers <= 1 per kind and colour where the term loops over them)"],
    "outside": ["term(mirror(P)) == -term(P) on whole boards is decided per man (quick); the step from per-man antisymmetry to the 64-term sums is commutativity of addition "
                "plus the sum form of the loops (inspected; for the accumulators also C15's init-is-sum lemma), not a solver verdict - equality of two permuted 64-term "
                "adder trees does not finish in SAT (measured > 30 min)",
                "|eval| < 31900 for extreme material and whole-term symmetry with several officers: only in thorough, may stay inconclusive"],
    "assumptions": ["mirror = colour swap + rank flip"],
    "trusted_base": ["kani 0.68.0", "cbmc 6.11.0", "cadical"],
    "explanation": "Blend kernel over all inputs; per-man antisymmetry of the table-driven terms on the real tables; whole-term statements only in thorough.",
}
MANIFEST = {
    "text": "Bounded model checking: (1) for_phase lies between its middlegame and endgame inputs for ALL packable pairs and every phase 0..88 (weights never "
            "negative), packing round-trips, packed negation/addition act half-wise; (2) per man, on the real tables: the piece-square(+material) value of a man equals "
            "minus that of the colour-swapped man on the rank-flipped square (all 768 cells, magnitudes far inside an i16 half), passed-ness / mask / bonus of a pawn "
            "are mirror images for the two colours and passed-ness equals its geometric definition (every square, every enemy pawn set); the bishop-pair term is "
            "antisymmetric on every valid position; the mobility/king-safety term of a side with at most one officer (each kind, or none) equals the other side's term "
            "on the mirrored position with everything else symbolic; (3) composition: for ANY accumulator content and ANY values of the three computed terms (uninterpreted), "
            "the real absolute_eval / eval equal for_phase(sum of the four terms) seen from the side to move - no term skipped or weighted by who is ahead. "
            "Whole-board symmetry of the summed terms follows by commutativity of addition; whole-term and whole-evaluation "
            "harnesses exist in thorough but the solver may not finish them.",
    "note": "Mobility/king-safety symmetry only with one officer on the evaluated side; boundedness for extreme material not decided in quick; the sum step is an argument, not a solver verdict.",
    "design_ref": "DESIGN.md s.4 C16",
}
DUMP = ["PST", "PP"]
MODULES = ["geom", "pos", "stubs", "c16"]


def inst(kind, k, pawns=0):
    if kind == "mobility":
        name = f"c16_sym_mobility_k{k}"
        body = f"c16::sym_mobility({k});"
    else:
        name = f"c16_total_k{k}p{pawns}"
        body = f"c16::total({k}, {pawns});"
    attrs = ["#[kani::proof]", f"#[kani::unwind({66 if kind == 'total' else max(k, 7) + 2})]"] + [f"#[kani::stub({a}, {b})]" for a, b in GEOM_STUBS]
    return name, "\n".join(attrs) + f"\npub fn {name}() {{ {body} }}\n"


def jobs(tier, seed):
    k = 1
    t = 7200 if tier == "thorough" else 2400
    js = [
        Job("c16_blend", "for_phase(mg, eg, phase) lies between mg and eg for all pairs and phases 0..88", timeout=900, min_covers=2),
        Job("c16_pack", "PhasedEval::new/midgame/endgame round trip for all packable pairs", timeout=300),
        Job("c16_neg_add", "packed negation / addition / subtraction act half-wise", timeout=300),
        Job("c16_cell_pst", "piece-square value of a man == -value of the colour-swapped man on the flipped square; every colour, kind, square; real tables", timeout=900),
        Job("c16_cell_passed_pawn", "passed-ness, mask and bonus of a pawn are mirror images for the two colours; every square and enemy pawn set; real tables", timeout=1200,
            min_covers=2),
        Job("c16_sym_material", "bishop-pair term antisymmetric under mirroring, any valid position", timeout=900, witness=False, checks="functional"),
    ]
    KN = ["none", "knight", "bishop", "rook", "queen"]
    for kind in range(5):
        for side in (0, 1):
            name = f"c16_mobility_one_{KN[kind]}_{'wb'[side]}"
            attrs = ["#[kani::proof]", "#[kani::unwind(9)]"] + [f"#[kani::stub({a}, {b})]" for a, b in GEOM_STUBS]
            src = "\n".join(attrs) + f"\npub fn {name}() {{ c16::mobility_one({kind}, {side}); }}\n"
            js.append(Job(name, f"mobility/king-safety term of {'white' if side == 0 else 'black'} with at most one officer ({KN[kind]}) == the other side's term on the mirrored "
                                "position; everything else symbolic", gen=src, timeout=t, mem_gb=20, weight_gb=4, witness=False, checks="functional",
                          params={"officer": KN[kind], "side": "wb"[side]}))
    js.append(Job("c16_compose", "absolute_eval / eval == for_phase(accumulators + material + mobility/king-safety + pawn structure) seen from the mover, for ANY accumulator "
                                 "content and ANY term values (the three term functions are uninterpreted here), any valid position", timeout=900, checks="functional", min_covers=2))
    if tier == "thorough":
        # whole-term statements on symbolic boards: equality of two 64-term sums in different order is hard for SAT; long caps, may stay inconclusive
        js += [
            Job("c16_sym_pst", "piece-square+material term antisymmetric under mirroring, any reachable material, no overflow", timeout=t, mem_gb=24, witness=False),
            Job("c16_sym_phase", "game phase colour-blind and equal to 1/1/2/4 per N/B/R/Q, any valid position", timeout=t, mem_gb=16, witness=False, checks="functional"),
            Job("c16_sym_pawns", "passed-pawn term antisymmetric under mirroring, <= 8 pawns a side", timeout=t, mem_gb=24, witness=False, checks="functional"),
        ]
        n, src = inst("mobility", k)
        js.append(Job(n, f"mobility/king-safety term antisymmetric under mirroring, <= {k} officers per kind and colour", gen=src, timeout=t, mem_gb=24, witness=False,
                      checks="functional", params={"per_kind": k}))
        n, src = inst("total", k, 2)
        js.append(Job(n, f"eval(mirror(P)) == eval(P) from the mover's view, inside the non-mate band, <= {k} officers per kind and colour", gen=src, timeout=t, mem_gb=30,
                      witness=False, params={"per_kind": k}))
    return js


def decode(job, vals):
    return None
