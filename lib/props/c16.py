from vdriver import Job

ID = "C16"
LEVEL = "model_checking"
MAIN = "c16"
MODULES = ["geom", "stubs", "c16"]
ACCESS = None
DUMP = []
PARALLEL = 8

META = {
    "functions_encoded": ["engine::eval::phased_eval::PhasedEval::{new, midgame, endgame, for_phase, add, sub, neg}"],
    "stubs": [],
    "bounds": ["game phase in [0, 88] (nine queens, two rooks, two bishops, two knights a side)", "all i16 (mg, eg) pairs that can be packed"],
    "outside": [],
    "assumptions": [],
    "trusted_base": ["kani 0.68.0", "cbmc 6.11.0", "cadical"],
    "explanation": "see MANIFEST level text",
}
MANIFEST = {
    "text": "placeholder",
    "note": "placeholder",
    "design_ref": "DESIGN.md s.4 C16",
}


def jobs(tier, seed):
    return [
        Job("c16_blend", "for_phase(mg, eg, phase) lies between mg and eg for all pairs and phases 0..88", timeout=900, min_covers=2),
        Job("c16_pack", "PhasedEval::new/midgame/endgame round trip for all packable pairs", timeout=300),
        Job("c16_neg_add", "packed negation / addition / subtraction act half-wise", timeout=300),
    ]


def decode(job, vals):
    return {"any_values": [int.from_bytes(bytes(v), "little", signed=True) for v in vals[:8]]}
