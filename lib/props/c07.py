from vdriver import Job

ID = "C07"
LEVEL = "model_checking"
MAIN = "c07"
MODULES = ["geom", "c07"]
ACCESS = None
DUMP = ["ATTACKS", "ROOK_NOT_MASKS", "BISHOP_NOT_MASKS", "KNIGHT", "KING", "PAWN", "BETWEEN"]
PARALLEL = 16

META = {
    "functions_encoded": [
        "chess::movegen::tables::magics::{rook_attacks, bishop_attacks, table_index_rook, table_index_bishop} with the real "
        "DEFAULT_ROOK_MAGICS/DEFAULT_BISHOP_MAGICS constants",
        "chess::movegen::tables::{knight_attacks, king_attacks, pawn_attacks, between}",
        "chess::square::Square::{from_index, array_idx}, chess::bitboard::Bitboard::{new, as_u64, BitOr}",
        "table contents: ATTACKS_TABLE (87,988 words), ROOK/BISHOP_NOT_MASKS, knight/king/pawn/between tables exactly as "
        "produced by the real crate::init() of this tree in this run (native dump), loaded into the real statics",
    ],
    "stubs": [],
    "bounds": ["no loop in the look-up path; naive reference walk unwound 9 (max 7 steps per ray, unwinding assertions on)",
               "rook/bishop: case split by rank (8 files symbolic per query) in quick; one fully symbolic square query in thorough"],
    "outside": ["the table-filling loops of init() are executed natively (they have no inputs), not symbolically"],
    "assumptions": ["the native test build and Kani's build compile the same init() source (same tree, same features)",
                    "CBMC 6.11 / CaDiCaL / Kani 0.68 code generation are sound",
                    "oracle = naive file/rank arithmetic walk in harness/verif/geom.rs"],
    "trusted_base": ["kani 0.68.0", "cbmc 6.11.0", "cadical", "rustc (kani toolchain)"],
    "explanation": "Every (square, 64-bit occupancy) pair - including occupancies differing in irrelevant bits - is decided by "
                   "one SAT query per rank over the compiled look-up code with the real table; pointer/bounds checks on "
                   "get_unchecked are part of the same verdict.",
}


def jobs(tier, seed):
    js = [
        Job("c07_geom_rook", "straight-line rook geometry == naive walk, all squares x occupancies", timeout=900),
        Job("c07_geom_bishop", "straight-line bishop geometry == naive walk, all squares x occupancies", timeout=900),
        Job("c07_geom_leapers_between", "knight/king/pawn/between geometry == naive definitions, all squares / pairs / colours", timeout=900),
        Job("c07_small_tables", "real knight/king/pawn/between tables == geometry, all squares / pairs / colours", timeout=900),
    ]
    for r in range(8):
        js.append(Job(f"c07_rook_rank{r}", f"real rook_attacks == geometry, rank {r+1}, every occupancy; in-table", timeout=1500,
                      params={"rank": r}))
        js.append(Job(f"c07_bishop_rank{r}", f"real bishop_attacks == geometry, rank {r+1}, every occupancy; in-table", timeout=1500,
                      params={"rank": r}))
    if tier == "thorough":
        js.append(Job("c07_rook_any", "real rook_attacks == geometry, square and occupancy symbolic (2^70 cases)", timeout=3600, mem_gb=24))
        js.append(Job("c07_bishop_any", "real bishop_attacks == geometry, square and occupancy symbolic (2^70 cases)", timeout=3600, mem_gb=24))
    return js


def decode(job, vals):
    def u(b):
        return int.from_bytes(bytes(b), "little")
    if job.harness.startswith(("c07_rook_rank", "c07_bishop_rank")):
        return {"file": u(vals[0]), "occupancy": hex(u(vals[1]))}
    if job.harness in ("c07_rook_any", "c07_bishop_any", "c07_geom_rook", "c07_geom_bishop"):
        return {"square": u(vals[0]), "occupancy": hex(u(vals[1]))}
    return {"a": u(vals[0]), "b": u(vals[1]), "white": u(vals[2])}

MANIFEST = {
    "text": "Bounded model checking of the real look-up code: for every square (case split by rank) and EVERY 64-bit occupancy the "
            "solver proves rook/bishop look-ups through the real magics, not-masks and the 87,988-entry table produced by this "
            "tree's init() equal a naive ray walk, with in-bounds checks of the unchecked indexing in the same verdict; knight, "
            "king, pawn and between tables likewise for all squares/pairs/colours. No bound inside the look-up path, so this is "
            "the strongest level the technique offers short of an unbounded proof.",
    "note": "Table contents come from running the real init() natively on the same tree (it has no inputs); trusted: Kani/CBMC/"
            "CaDiCaL, equality of the native and Kani builds of init(), the naive reference walk in harness/verif/geom.rs.",
    "design_ref": "DESIGN.md s.4 C07",
}
