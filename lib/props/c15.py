from vdriver import Job

ID = "C15"
LEVEL = "model_checking"
MAIN = "c15"
MODULES = ["geom", "pos", "stubs", "step", "c15"]
ACCESS = None
DUMP = ["PST"]
PARALLEL = 13

META = {
    "functions_encoded": ["engine::eval::IncrementalEvalFields::{init, set_at, remove_at}", "engine::eval::phased_eval::{phase_value, piece_phase_value_contribution}",
                          "engine::eval::piece_square_tables::{eval, piece_contributions}", "chess::game::Game::{make_move, undo_move, make_null_move, undo_null_move}",
                          "piece-square tables: the 768 packed values produced by the real piece_square_tables::init() of this tree (native dump)"],
    "stubs": [],
    "bounds": ["any valid position of reachable material (<= 8 pawns a side, promoted pieces paid for by missing pawns), any legal move, one step; "
               "init()'s two 64-square loops fully unwound (66)"],
    "outside": ["the other evaluation terms read the board only (by inspection of eval/mod.rs), so path-independence of eval follows from this step plus C02"],
    "assumptions": ["legal moves = make-then-test oracle (C01)"],
    "trusted_base": ["kani 0.68.0", "cbmc 6.11.0", "cadical"],
    "explanation": "One inductive step from an arbitrary valid state with accumulators == recomputation, arithmetic overflow checks on.",
}
MANIFEST = {
    "text": "Bounded model checking by one-step induction with the REAL piece-square tables: from any valid position of reachable material with "
            "accumulators equal to IncrementalEvalFields::init(board), after the real make_move (any oracle-legal move, incl. promotions, en passant, "
            "castling) or null move they equal init(board) again, and take-backs restore them; overflow checks on. By induction the accumulators "
            "equal recomputation after any sequence of moves, null moves and take-backs.",
    "note": "Material bounded to what a game can reach; the remaining eval terms are functions of the board alone by inspection.",
    "design_ref": "DESIGN.md s.4 C15",
}


KINDS = ["pawn", "knight", "bishop", "rook", "queen", "king"]


def jobs(tier, seed):
    t = 7200 if tier == "thorough" else 3000
    js = []
    if tier == "thorough":  # > 30 min (64-square loops over a symbolic mailbox)
        js.append(Job("c15_init_is_sum", "real IncrementalEvalFields::init == sum of the contributions of all men, any reachable material", timeout=t, mem_gb=24, witness=False))
    from props.c10 import bpos_literal
    from props.c03 import PLACEMENTS
    import re as _re
    for i, fen in enumerate(PLACEMENTS):
        pcs = _re.search(r"pcs: (\[\[.*?\]\])", bpos_literal(fen)).group(1)
        name = f"c15_init_on_placement_{i}"
        src = f"#[kani::proof]\n#[kani::unwind(66)]\npub fn {name}() {{ c15::init_on_placement({pcs}); }}\n"
        js.append(Job(name, f"real init() == sum of contributions on the concrete placement '{fen.split()[0]}'", gen=src, timeout=900, mem_gb=12, witness=False,
                      params={"placement": fen.split()[0]}))
    js.append(Job("c15_delta_null", "null move leaves the accumulators alone; take-back restores", timeout=1200, mem_gb=16, witness=False, checks="functional"))
    for kind in range(6):
        for side in (0, 1):
            name = f"c15_delta_make_{KINDS[kind]}_{'wb'[side]}"
            src = f"#[kani::proof]\npub fn {name}() {{ c15::delta_make({kind}, {side}); }}\n"
            js.append(Job(name, f"ANY starting accumulators: any {KINDS[kind]} move ({'white' if side == 0 else 'black'}) changes them by exactly the contributions of the men that "
                                "appeared/disappeared; undo restores; any material", gen=src, timeout=t, mem_gb=20, weight_gb=4, witness=False,
                          params={"moving_kind": KINDS[kind], "white_to_move": side == 0}))
    if tier == "thorough":
        js.append(Job("c15_null_step", "direct: accumulators == recomputation preserved by null move; undo restores", timeout=t, mem_gb=24, witness=False))
        for kind in range(6):
            for side in (0, 1):
                name = f"c15_make_step_{KINDS[kind]}_{'wb'[side]}"
                src = f"#[kani::proof]\n#[kani::unwind(66)]\npub fn {name}() {{ c15::make_step({kind}, {side}); }}\n"
                js.append(Job(name, f"direct: accumulators == recomputation preserved by any {KINDS[kind]} move ({'white' if side == 0 else 'black'}); undo restores", gen=src,
                              timeout=t, mem_gb=24, witness=False, params={"moving_kind": KINDS[kind], "white_to_move": side == 0}))
    return js


def decode(job, vals):
    return None
