from vdriver import Job

ID = "C19"
LEVEL = "model_checking"
MAIN = "c19"
MODULES = ["geom", "stubs", "c19"]
ACCESS = None
DUMP = []
PARALLEL = 11

META = {
    "functions_encoded": [
        "engine::transposition_table::TranspositionTable<SearchTranspositionTableData>::{insert, get, get_entry_idx, occupancy, "
        "new_generation, reset, resize}", "engine::transposition_table::calculate_number_of_entries",
        "engine::search::transposition::SearchTranspositionTableData::should_overwrite_with",
    ],
    "stubs": [],
    "bounds": ["table length n in {1,2,3} (quick) / {1..5} (thorough) (one harness instance each; the code is length-generic: the only length-dependent expression is key % len)",
               "one operation from an ARBITRARY table under the invariant {len = n; filled slot i has key % n == i; occupied = number of filled "
               "slots}, arbitrary entries, keys, generation - inductive step, so histories of any length are covered if the invariant is right",
               "resize executed for the same size (no-op) and for 0 MB; other sizes allocate mb*65536 entries and are trusted to Vec::resize"],
    "outside": ["resize to sizes > 0 MB (allocation of mb*65536 entries is not executed symbolically)",
                "u8 age: an entry written exactly 256 searches earlier has the same age as the current search (inherent to the 8-bit counter)"],
    "assumptions": ["Vec push/index semantics as modelled by Kani's std", "f32 arithmetic in occupancy() as modelled bit-precisely by CBMC"],
    "trusted_base": ["kani 0.68.0", "cbmc 6.11.0", "cadical"],
    "explanation": "One-step induction on the real table code from a symbolic pre-state.",
}

MANIFEST = {
    "text": "Bounded model checking by one-step induction: from an arbitrary table (1-3 slots, arbitrary entries/keys/generation, only the "
            "representation invariant assumed) one real insert / get / new_generation / reset / resize / occupancy is executed and the "
            "solver shows for every key and entry: probes return data only under full-key equality and it is the slot's current content; "
            "after insert the slot holds the new entry when it was empty, when ages differ, and - same age, old exact - exactly when the "
            "new one is exact or deeper; other slots untouched; occupied/fill indicator exact; invariant preserved. Histories of any "
            "length follow by induction.",
    "note": "Table lengths 1..3 only (size-generic code); resize to >0 MB trusted to Vec::resize; 8-bit age wraps after 256 searches.",
    "design_ref": "DESIGN.md s.4 C19",
}


def jobs(tier, seed):
    js = []
    for n in (1, 2, 3):
        js.append(Job(f"c19_get_n{n}", f"get from arbitrary {n}-slot table: full-key equality, current content", params={"n": n}, timeout=900, min_covers=1))
        js.append(Job(f"c19_insert_n{n}", f"insert into arbitrary {n}-slot table: replacement policy, other slots, counters, invariant", params={"n": n}, timeout=1200))
        js.append(Job(f"c19_misc_n{n}", f"occupancy/new_generation/resize(same)/reset on arbitrary {n}-slot table", params={"n": n}, timeout=900))
    if tier == "thorough":
        for n in (4, 5):
            for fn, what in (("step_get", "get"), ("step_insert", "insert"), ("step_misc", "misc")):
                name = f"c19_{what}_n{n}"
                src = f"#[kani::proof]\n#[kani::unwind(7)]\npub fn {name}() {{ c19::{fn}({n}); }}\n"
                js.append(Job(name, f"{what} on an arbitrary {n}-slot table", gen=src, params={"n": n}, timeout=3600, mem_gb=16))
    js.append(Job("c19_resize_smallest", "resize(0 MB) from an arbitrary table, then probe+insert+probe", timeout=900))
    js.append(Job("c19_new_smallest", "TranspositionTable::new(0 MB), then probe+insert+probe", timeout=900))
    js.append(Job("c19_overwrite_policy", "should_overwrite_with vs the statement, all entry pairs", timeout=300, min_covers=2))
    return js


def decode(job, vals):
    return {"any_values": [int.from_bytes(bytes(v), "little") for v in vals[:12]]}
