from vdriver import Job

ID = "C18"
LEVEL = "other"
MAIN = "c18"
MODULES = ["geom", "pos", "stubs", "step", "c18"]
ACCESS = None
DUMP = []
PARALLEL = 16

GEOM_STUBS = [
    ("crate::chess::movegen::tables::magics::rook_attacks", "stubs::s_rook"),
    ("crate::chess::movegen::tables::magics::bishop_attacks", "stubs::s_bishop"),
    ("crate::chess::movegen::tables::knights::knight_attacks", "stubs::s_knight"),
    ("crate::chess::movegen::tables::king::king_attacks", "stubs::s_king"),
    ("crate::chess::movegen::tables::pawns::pawn_attacks", "stubs::s_pawn"),
    ("crate::chess::movegen::tables::between::between", "stubs::s_between"),
]

META = {
    "functions_encoded": ["chess::san::san_writer::required_ambiguity_resolution"],
    "stubs": ["chess::movegen::gen::generate_legal_moves -> emits exactly the oracle-legal moves of men of the mover's kind to the destination (the sub-list the "
              "function depends on; by C01 the real list contains exactly these) plus one arbitrary other legal move"],
    "bounds": ["any valid position, any legal knight/bishop/rook/queen move; at most 3 men of the mover's kind (quick) / 4 (thorough)"],
    "outside": ["the text itself (piece letter, x, =X, +, O-O shapes) and reading it back: format!/String/Vec<char>/HashSet code is not encodable within reach "
                "(measured: nom/format! string code does not finish symbolic execution), see DESIGN.md"],
    "assumptions": ["the generated list equals the oracle-legal moves (C01)"],
    "trusted_base": ["kani 0.68.0", "cbmc 6.11.0", "cadical"],
    "explanation": "Kernel-level claim on the disambiguation class only.",
}
MANIFEST = {
    "text": "Partial (kernel-level) claim, hence 'other': for every valid position and every legal officer move (up to 3/4 like men) the solver shows the "
            "writer's disambiguation class equals the standard one (none / file / rank / both, minimal in that order) computed from the oracle-legal moves. "
            "The produced text and reading it back are NOT claimed (string formatting/parsing code is out of reach of the technique here).",
    "note": "Generator replaced by the oracle-legal sub-list the kernel depends on; text-level sentences outside the claim.",
    "design_ref": "DESIGN.md s.4 C18",
}


KINDS = ["pawn", "knight", "bishop", "rook", "queen", "king"]
SQN = lambda i: "abcdefgh"[i % 8] + str(i // 8 + 1)
POOL = [27, 35, 0, 63, 11, 52, 30, 33, 5, 58]


def inst(n, kind, dst, side):
    name = f"c18_ambiguity_k{n}_{KINDS[kind]}_{SQN(dst)}_{'wb'[side]}"
    attrs = ["#[kani::proof]", "#[kani::unwind(8)]", "#[kani::stub(crate::chess::movegen::gen::generate_legal_moves, c18::stub_generate)]"]
    attrs += [f"#[kani::stub({a}, {b})]" for a, b in GEOM_STUBS]
    return name, "\n".join(attrs) + f"\npub fn {name}() {{ c18::ambiguity({n}, {kind}, {dst}, {side}); }}\n"


def jobs(tier, seed):
    import os, random
    rnd = random.Random(seed)
    n = 4 if tier == "thorough" else 3
    if tier == "thorough":
        cases = [(k, d, s_) for k in (1, 2, 3, 4) for d in range(64) for s_ in (0, 1)]
    else:
        cases = [(k, rnd.choice(POOL), rnd.randrange(2)) for k in (1, 2, 3, 4)]
    if os.environ.get("C18_SUFFIX_EXP"):
        k, s_, men = [int(x) for x in os.environ["C18_SUFFIX_EXP"].split(":")]
        name = f"c18_suffix_{KINDS[k]}_{'wb'[s_]}_m{men}"
        attrs = ["#[kani::proof]", "#[kani::unwind(12)]", "#[kani::stub(crate::chess::movegen::gen::generate_legal_moves, c18::stub_generate)]"]
        attrs += [f"#[kani::stub({a}, {b})]" for a, b in GEOM_STUBS]
        src = "\n".join(attrs) + f"\npub fn {name}() {{ c18::suffix({k}, {s_}, {men}); }}\n"
        return [Job(name, "experiment: check suffix of format_move", gen=src, timeout=1500, mem_gb=24, witness=False, min_covers=2)]
    if os.environ.get("C18_CASES"):
        cases = [tuple(int(y) for y in x.split(":")) for x in os.environ["C18_CASES"].split(",")]
    js = []
    for k, d, s_ in cases:
        name, src = inst(n, k, d, s_)
        js.append(Job(name, f"disambiguation class == standard for {KINDS[k]} moves to {SQN(d)} ({'white' if s_ == 0 else 'black'}), <= {n} like men, any valid position",
                      gen=src, timeout=3000, mem_gb=30, weight_gb=12, checks="functional", witness=False, min_covers=1, params={"max_like_men": n, "kind": KINDS[k], "to": SQN(d)}))
    return js


def decode(job, vals):
    return None
