from vdriver import Job

ID = "C17"
LEVEL = "other"
MAIN = "c17"
MODULES = ["geom", "pos", "stubs", "step", "c02", "c17"]
ACCESS = None
DUMP = []
PARALLEL = 16

META = {
    "functions_encoded": ["chess::moves::MoveListExt::expect_matching", "engine::uci::UciMove::from(Move)", "chess::moves::Move::{src, dst, promotion, flags}",
                          "engine::uci::parser::{uci_move, uci_square, uci_promotion} (nom combinators as compiled)",
                          "engine::uci::Uci::execute (UciCommand::Position branch: the real handler loop, expect_matching, Game::make_move)"],
    "stubs": ["position_cmd harnesses only: Game::from_fen -> contract stub returning the arbitrary valid game (reading FEN text is C06's subject, string code); "
              "Game::moves -> contract stub (C01: exactly the legal moves): a 3-element list holding the oracle-legal move at an arbitrary index among two arbitrary "
              "other moves with a different (source, destination, promotion); std::intrinsics::catch_unwind -> runs the closure (Kani 0.68 cannot compile this intrinsic; "
              "only the go branch's JoinHandle drop glue reaches it); zobrist toggles / accumulator updates -> no-ops as in C02 (key content is C03/C15)",
              "native replay of a position_cmd counterexample uses NO stub: the real FEN reader and the real generator run on the FEN text of the counterexample position"],
    "bounds": ["move lists of up to 5 arbitrary moves", "single-move text: ALL 7-bit ASCII strings of length 4 and of length 5",
               "position command harnesses: every loop unwound at most 9 times (memcmp 200) with unwinding assertions - a bound, not an assumption",
               "command sequences: two commands on one engine, same FEN, move lists of length 0 or 1 (take-back, extension, same/other move); the game held before "
               "the first command is a kings-only position whose key differs from the FEN's",
               "position command: ONE move after the FEN, from ANY valid position (no piece-count bound), split by moving kind x side; longer move lists follow by "
               "induction over the handler's loop only if the loop treats every element alike (not checked beyond one iteration)"],
    "outside": ["parsing of whole 'position ... moves ...' command lines (nom over long strings, Vec, String) and reading the FEN text (C06, string code) "
                "are not encodable within reach; move lists longer than one move; the 'd move' debug command",
                "UciMove::notation (format!/String)"],
    "assumptions": ["only the twelve flag patterns defined in moves.rs occur as moves"],
    "trusted_base": ["kani 0.68.0", "cbmc 6.11.0", "cadical"],
    "explanation": "Kernel-level claim on text <-> move mapping plus one inductive step of the real position-command handler.",
}
MANIFEST = {
    "text": "Partial (kernel-level) claim, hence 'other': the solver shows (1) expect_matching returns an element of the list with exactly the requested source, "
            "destination and promotion whenever one exists (lists of up to 5 arbitrary moves); (2) Move -> UciMove preserves source, destination and promotion for "
            "every move encoding; (3) the single-move parser accepts exactly [a-h][1-8][a-h][1-8][nbrq]? in lower case, with the right squares and promotion piece, "
            "over ALL ASCII strings of length 4 and 5; (4) the real `position` handler (Uci::execute) applied to 'fen <any valid position> moves <m>' for any "
            "legal m (split by moving kind x side) ends in exactly the game the rules prescribe - placement, side, rights, en-passant target, clocks, history "
            "length, all three board views - with the FEN reader and the generator replaced by contract stubs (their content is C06 / C01); (5) two position commands on ONE "
            "engine ('F m' then 'F'; 'F' then 'F m'; 'F m' then 'F m2') end in the game of the last command alone. Whole command "
            "lines as text and move lists longer than one move are NOT claimed.",
    "note": "Command-line text parsing, FEN text reading and move lists longer than one move outside the claim; output formatting (format!) outside.",
    "design_ref": "DESIGN.md s.4 C17",
}


def inst(n):
    name = f"c17_uci_move_text_len{n}"
    return name, f"#[kani::proof]\n#[kani::unwind(12)]\npub fn {name}() {{ c17::uci_move_text({n}); }}\n"


STUBS = [
    ("crate::chess::game::Game::from_fen", "c17::stub_from_fen"),
    ("crate::chess::game::Game::moves", "c17::stub_moves"),
    ("std::intrinsics::catch_unwind", "c17::stub_catch_unwind"),
    ("crate::chess::zobrist::ZobristHash::toggle_piece_on_square", "c02::nop_toggle_piece"),
    ("crate::chess::zobrist::ZobristHash::toggle_castle_rights", "c02::nop_toggle_castle"),
    ("crate::chess::zobrist::ZobristHash::set_en_passant", "c02::nop_set_ep"),
    ("crate::chess::zobrist::ZobristHash::toggle_side_to_play", "c02::nop_toggle_side"),
    ("crate::engine::eval::IncrementalEvalFields::set_at", "c02::nop_eval_set"),
    ("crate::engine::eval::IncrementalEvalFields::remove_at", "c02::nop_eval_remove"),
]
SEQ_UNWIND = 9
KINDS = ["pawn", "knight", "bishop", "rook", "queen", "king"]


PATTERNS = {1: ("takeback", "'position fen F moves m' then 'position fen F'"), 2: ("extend", "'position fen F' then 'position fen F moves m'"),
            3: ("again", "'position fen F moves m' then 'position fen F moves m2' (m2 the same or another legal move)")}


def inst_cmd(kind, side, pattern=0):
    if pattern == 0:
        name = f"c17_position_cmd_{KINDS[kind]}_{'wb'[side]}"
    else:
        name = f"c17_position_seq_{PATTERNS[pattern][0]}_{'wb'[side]}"
    attrs = ["#[kani::proof]"] + [f"#[kani::stub({a}, {b})]" for a, b in STUBS]
    return name, "\n".join(attrs) + f"\npub fn {name}() {{ c17::position_cmd({kind}, {side}, {pattern}); }}\n"


def jobs(tier, seed):
    js = [
        Job("c17_expect_matching", "expect_matching on arbitrary lists of <= 5 moves", timeout=1500, mem_gb=16, witness=False),
        Job("c17_from_move", "UciMove::from(Move) field mapping for every move encoding", timeout=600),
    ]
    for n in (4, 5):
        name, src = inst(n)
        js.append(Job(name, f"uci_move parser on all ASCII strings of length {n}", gen=src, timeout=1800, mem_gb=16, witness=False, params={"len": n}))
    for kind in range(6):
        for side in (0, 1):
            name, src = inst_cmd(kind, side)
            js.append(Job(name, f"Uci::execute(position fen <any valid position> moves <m>), m = any legal {KINDS[kind]} move, {'white' if side == 0 else 'black'} to move",
                          gen=src, timeout=2400, mem_gb=16, weight_gb=2.0, checks="functional", witness=False, unwind=SEQ_UNWIND, extra_cbmc=["--unwindset", "memcmp.0:200"],
                          params={"moving_kind": KINDS[kind], "white_to_move": side == 0}))
    for pattern in (1, 2, 3):
        for side in (0, 1):
            name, src = inst_cmd(6, side, pattern)
            js.append(Job(name, f"two position commands on one engine: {PATTERNS[pattern][1]}; any valid F, any legal m, {'white' if side == 0 else 'black'} to move: "
                                "the result is that of the last command alone",
                          gen=src, timeout=2400, mem_gb=16, weight_gb=2.5, checks="functional", witness=False, unwind=SEQ_UNWIND, extra_cbmc=["--unwindset", "memcmp.0:200"],
                          params={"pattern": PATTERNS[pattern][0], "white_to_move": side == 0}))
    return js


def decode(job, vals):
    return {"any_values_le": [int.from_bytes(bytes(v), "little") for v in vals[:8]]}
