from vdriver import Job

ID = "C17"
LEVEL = "other"
MAIN = "c17"
MODULES = ["geom", "pos", "stubs", "c17"]
ACCESS = None
DUMP = []
PARALLEL = 4

META = {
    "functions_encoded": ["chess::moves::MoveListExt::expect_matching", "engine::uci::UciMove::from(Move)", "chess::moves::Move::{src, dst, promotion, flags}",
                          "engine::uci::parser::{uci_move, uci_square, uci_promotion} (nom combinators as compiled)"],
    "stubs": [],
    "bounds": ["move lists of up to 5 arbitrary moves", "single-move text: ALL 7-bit ASCII strings of length 4 and of length 5"],
    "outside": ["'the position after the command is the one reached by playing the moves': that is C01 + C02 applied move by move; parsing of whole "
                "'position ... moves ...' command lines (nom over long strings, Vec, String) and games of arbitrary length are not encodable within reach",
                "UciMove::notation (format!/String)"],
    "assumptions": ["only the twelve flag patterns defined in moves.rs occur as moves"],
    "trusted_base": ["kani 0.68.0", "cbmc 6.11.0", "cadical"],
    "explanation": "Kernel-level claim on text <-> move mapping.",
}
MANIFEST = {
    "text": "Partial (kernel-level) claim, hence 'other': the solver shows (1) expect_matching returns an element of the list with exactly the requested source, "
            "destination and promotion whenever one exists (lists of up to 5 arbitrary moves); (2) Move -> UciMove preserves source, destination and promotion for "
            "every move encoding; (3) the single-move parser accepts exactly [a-h][1-8][a-h][1-8][nbrq]? in lower case, with the right squares and promotion piece, "
            "over ALL ASCII strings of length 4 and 5. That the position after a whole 'position ... moves ...' command equals the played game rests on C01+C02 and "
            "is NOT claimed at the command level.",
    "note": "Command-line parsing of whole position commands and long games outside the claim; output formatting (format!) outside.",
    "design_ref": "DESIGN.md s.4 C17",
}


def inst(n):
    name = f"c17_uci_move_text_len{n}"
    return name, f"#[kani::proof]\n#[kani::unwind(12)]\npub fn {name}() {{ c17::uci_move_text({n}); }}\n"


def jobs(tier, seed):
    js = [
        Job("c17_expect_matching", "expect_matching on arbitrary lists of <= 5 moves", timeout=1500, mem_gb=16, witness=False),
        Job("c17_from_move", "UciMove::from(Move) field mapping for every move encoding", timeout=600),
    ]
    for n in (4, 5):
        name, src = inst(n)
        js.append(Job(name, f"uci_move parser on all ASCII strings of length {n}", gen=src, timeout=1800, mem_gb=16, witness=False, params={"len": n}))
    return js


def decode(job, vals):
    return {"any_values_le": [int.from_bytes(bytes(v), "little") for v in vals[:8]]}
