from vdriver import Job

ID = "C12"
LEVEL = "other"
MAIN = "c12"
MODULES = ["geom", "pos", "stubs", "c12"]
ACCESS = None
DUMP = []
PARALLEL = 2

META = {
    "functions_encoded": ["engine::search::PersistentState::reset", "engine::transposition_table::TranspositionTable::reset",
                          "engine::search::tables::HistoryTable::{reset, new}", "engine::search::SearchContext::new",
                          "engine::search::tables::{KillersTable::new, CountermoveTable::new}",
                          "engine::search::time_control::TimeStrategy::{new, should_stop, should_start_new_search, is_force_stopped}, Control::stop"],
    "stubs": ["std::time::Instant::now -> fixed instant (the clock is the environment)",
              "std::time::Instant::elapsed -> panic (so any clock read under TimeControl::Infinite is a failed check)"],
    "bounds": ["transposition table of 3 slots with arbitrary content; history table with one arbitrary cell at a symbolic index (so every cell is covered); loops unwound 66"],
    "outside": ["determinism of a whole fixed-depth search (best move, scores, node counts): needs the recursive search executed",
                "Uci::execute(UciNewGame) itself (Mutex/Arc plumbing around PersistentState::reset and Game::new)"],
    "assumptions": ["atomics executed sequentially (single thread)"],
    "trusted_base": ["kani 0.68.0", "cbmc 6.11.0", "cadical"],
    "explanation": "Kernel-level claim: reset == fresh for the persistent tables, fresh per-search tables, and no wall-clock input under "
                   "'infinite'; whole-search determinism is outside the claim.",
}
MANIFEST = {
    "text": "Partial (kernel-level) claim, hence 'other': from arbitrary table contents PersistentState::reset() leaves exactly the state of a "
            "new engine (every slot empty, generation and fill 0, every history cell 0); every SearchContext starts with empty killer and "
            "counter-move tables and zero counters; under TimeControl::Infinite neither should_stop nor should_start_new_search reads the "
            "clock (Instant::elapsed is stubbed to fail) for any node count/depth. Determinism of whole searches is NOT claimed.",
    "note": "3-slot table; one symbolic history cell; single-threaded atomics; Instant::now stubbed.",
    "design_ref": "DESIGN.md s.4 C12",
}


def jobs(tier, seed):
    return [
        Job("c12_reset_is_fresh", "PersistentState::reset from arbitrary tables == fresh tables", timeout=1800, mem_gb=16, checks="functional"),
        Job("c12_context_fresh_and_clock_free", "SearchContext::new starts empty; Infinite never reads the clock", timeout=1800, mem_gb=16),
    ]


def decode(job, vals):
    return {"any_values": [int.from_bytes(bytes(v), "little") for v in vals[:8]]}
