from vdriver import Job

ID = "C08"
LEVEL = "other"
MAIN = "c08"
MODULES = ["geom", "stubs", "c08"]
ACCESS = None
DUMP = []
PARALLEL = 4

META = {
    "functions_encoded": ["engine::eval::Eval::{mate_in, mated_in, is_mate_in_moves, with_mate_distance_from_position, with_mate_distance_from_root}",
                          "engine::search::principal_variation::PrincipalVariation::{new, push, append, clear, first, len, into_iter, clone}"],
    "stubs": [],
    "bounds": ["plies < 100 (the mate-score band is 100 wide)", "child line length <= 5 in PrincipalVariation::push (unwind 8)"],
    "outside": ["that every reported PV is a sequence of legal moves, that reported depths increase one by one and respect the depth limit, and "
                "that the line ends in checkmate: facts about runs of the recursive search, not executable symbolically",
                "the SearchScore -> 'info score' text formatting"],
    "assumptions": ["mate scores are produced only by mate_in/mated_in(ply) (negamax.rs) and moved through the table by the two adjust functions"],
    "trusted_base": ["kani 0.68.0", "cbmc 6.11.0", "cadical"],
    "explanation": "Kernel-level claim: the score<->announcement arithmetic and the PV buffer are decided for all inputs in range; "
                   "statements about whole search runs are outside the claim.",
}
MANIFEST = {
    "text": "Partial (kernel-level) claim, hence 'other': for every ply < 100 the solver shows mate_in(p) is announced as mate in (p+1)/2 and "
            "mated_in(p) as -(p/2), consistent with a line of exactly 2N-1 (winner) / 2N (loser) plies; no non-mate score is announced as "
            "mate; a mate score stored in the table at one ply and read at another announces the right distance; PrincipalVariation::push "
            "yields exactly [move] ++ child line. Legality of reported lines, depth progression and 'ends in checkmate' need whole search "
            "runs and are NOT claimed.",
    "note": "Assumes mate scores originate only from mate_in/mated_in(ply); line lengths <= 5 in the buffer harness.",
    "design_ref": "DESIGN.md s.4 C08",
}


def jobs(tier, seed):
    return [
        Job("c08_mate_announcement", "is_mate_in_moves vs mate_in/mated_in for all plies < 100 and all scores", timeout=300, min_covers=2),
        Job("c08_mate_score_through_table", "mate score stored at ply p1, read at ply p2: distance preserved", timeout=300),
        Job("c08_pv_push", "PrincipalVariation::push = [mv] ++ child (child length <= 5), first(), clear()", timeout=900),
    ]


def decode(job, vals):
    return {"any_values": [int.from_bytes(bytes(v), "little") for v in vals[:8]]}
