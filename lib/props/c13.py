from vdriver import Job

ID = "C13"
LEVEL = "other"
MAIN = "c13"
MODULES = ["geom", "pos", "stubs", "c13"]
ACCESS = None
DUMP = []
PARALLEL = 4

META = {
    "functions_encoded": ["engine::uci::options::{HashOption, ThreadsOption, MoveOverheadOption}::{DEF, set}", "str::parse::<usize> as compiled",
                          "engine::transposition_table::calculate_number_of_entries::<SearchTranspositionTableData>",
                          "engine::uci::Uci::execute (UciCommand::SetOption branch: name dispatch, setter, try_lock, TranspositionTable::resize)"],
    "stubs": ["alloc::fmt::format -> empty string (error messages of the setters are not the subject)",
              "setoption_cmd harnesses: std::intrinsics::catch_unwind -> runs the closure (Kani 0.68 cannot compile this intrinsic; only the go branch's JoinHandle drop glue reaches it)"],
    "bounds": ["option text: canonical decimal of 1..4 digits (covers every advertised range: max 1024)", "unwind 6 (16 where the option name comparison needs it)",
               "command level: engine state = {no search yet, an earlier go whose handle is still in Uci::control}, persistent state unlocked (no search RUNNING), "
               "table of the smallest size; Threads and Move Overhead: every advertised value; Hash: only the value 0 (any other value runs Vec::resize over value*65536 slots)"],
    "outside": ["'afterwards the engine ... completes a search with a legal move': needs a whole search on another thread; setoption while a search is running (try_lock fails)",
                "the allocation performed by resize for sizes > 0 (Vec::resize of mb*65536 entries)",
                "TimeStrategy::new for every advertised overhead is decided under C14"],
    "assumptions": ["ranges are read from the real UciOption::DEF constants, so a changed range changes the query"],
    "trusted_base": ["kani 0.68.0", "cbmc 6.11.0", "cadical"],
    "explanation": "Kernel-level claim (acceptance of every advertised value; usability of every advertised hash size) plus the real setoption command handler before / between searches.",
}
MANIFEST = {
    "text": "Partial (kernel-level) claim, hence 'other': with the ranges read from the real option declarations, the solver shows that the "
            "decimal text of EVERY advertised Hash / Threads / Move Overhead value is accepted and stored, and that every advertised hash size "
            "yields a table of at least one slot (the slot index is key % len) without overflow; and that the real command handler "
            "Uci::execute(setoption ...) returns Ok (an Err ends the engine's main loop), stores the value and leaves a usable table, before the first "
            "search and between searches (handle of an earlier go still present), for every advertised Threads / Move Overhead value and for Hash 0. "
            "'Completes a search afterwards' needs a whole search on another thread and is NOT claimed.",
    "note": "Canonical decimal text of up to 4 digits; table operations on non-empty tables are C19's inductive step.",
    "design_ref": "DESIGN.md s.4 C13",
}


def jobs(tier, seed):
    return [
        Job("c13_hash_entries", "calculate_number_of_entries for every advertised Hash value: >= 1, no overflow", timeout=300, min_covers=2),
        Job("c13_set_hash", "HashOption::set accepts the text of every advertised value", timeout=1200, min_covers=2),
        Job("c13_set_threads", "ThreadsOption::set accepts the text of every advertised value", timeout=1200, min_covers=2),
        Job("c13_set_move_overhead", "MoveOverheadOption::set accepts the text of every advertised value", timeout=1200, min_covers=2),
        Job("c13_setoption_cmd_hash", "Uci::execute(setoption name Hash value 0) before a search and between searches: Ok, stored, table usable", timeout=1500, mem_gb=12, min_covers=1),
        Job("c13_setoption_cmd_threads", "Uci::execute(setoption name Threads value v) for every advertised v, before and between searches", timeout=1500, mem_gb=12, min_covers=1),
        Job("c13_setoption_cmd_move_overhead", "Uci::execute(setoption name Move Overhead value v) for every advertised v, before and between searches", timeout=1500, mem_gb=12, min_covers=2),
    ]


def decode(job, vals):
    return {"any_values": [int.from_bytes(bytes(v), "little") for v in vals[:8]]}
