from vdriver import Job

ID = "C13"
LEVEL = "other"
MAIN = "c13"
MODULES = ["geom", "stubs", "c13"]
ACCESS = None
DUMP = []
PARALLEL = 4

META = {
    "functions_encoded": ["engine::uci::options::{HashOption, ThreadsOption, MoveOverheadOption}::{DEF, set}", "str::parse::<usize> as compiled",
                          "engine::transposition_table::calculate_number_of_entries::<SearchTranspositionTableData>"],
    "stubs": ["alloc::fmt::format -> empty string (error messages of the setters are not the subject)"],
    "bounds": ["option text: canonical decimal of 1..4 digits (covers every advertised range: max 1024)", "unwind 6"],
    "outside": ["'afterwards the engine still answers isready and completes a search with a legal move': needs Uci::execute (threads) and a whole search",
                "the allocation performed by resize for sizes > 0 (Vec::resize of mb*65536 entries)",
                "TimeStrategy::new for every advertised overhead is decided under C14"],
    "assumptions": ["ranges are read from the real UciOption::DEF constants, so a changed range changes the query"],
    "trusted_base": ["kani 0.68.0", "cbmc 6.11.0", "cadical"],
    "explanation": "Kernel-level claim: acceptance of every advertised value and usability (>= 1 slot, no overflow) of every advertised hash size.",
}
MANIFEST = {
    "text": "Partial (kernel-level) claim, hence 'other': with the ranges read from the real option declarations, the solver shows that the "
            "decimal text of EVERY advertised Hash / Threads / Move Overhead value is accepted and stored, and that every advertised hash size "
            "yields a table of at least one slot (the slot index is key % len) without overflow. 'Completes a search afterwards' needs the "
            "threaded UCI loop and a whole search and is NOT claimed.",
    "note": "Canonical decimal text of up to 4 digits; table operations on non-empty tables are C19's inductive step.",
    "design_ref": "DESIGN.md s.4 C13",
}


def jobs(tier, seed):
    return [
        Job("c13_hash_entries", "calculate_number_of_entries for every advertised Hash value: >= 1, no overflow", timeout=300, min_covers=2),
        Job("c13_set_hash", "HashOption::set accepts the text of every advertised value", timeout=1200, min_covers=2),
        Job("c13_set_threads", "ThreadsOption::set accepts the text of every advertised value", timeout=1200, min_covers=2),
        Job("c13_set_move_overhead", "MoveOverheadOption::set accepts the text of every advertised value", timeout=1200, min_covers=2),
    ]


def decode(job, vals):
    return {"any_values": [int.from_bytes(bytes(v), "little") for v in vals[:8]]}
