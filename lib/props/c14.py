from vdriver import Job

ID = "C14"
LEVEL = "other"
MAIN = "c14"
MODULES = ["geom", "pos", "stubs", "c14"]
ACCESS = None
DUMP = []
PARALLEL = 5
import os
BOUND_QUICK = 1 << 22      # seconds (~48 days)
BOUND_THOROUGH = 1 << 22
SLACK_SHIFT = 14

META = {
    "functions_encoded": ["engine::search::time_control::TimeStrategy::new", "core::time::Duration::{from_millis, saturating_sub, mul_f32, "
                          "as_secs_f32, from_secs_f32, div<u32>, add, cmp} as compiled (IEEE-754 f32, bit-precise in CBMC)"],
    "stubs": ["std::time::Instant::now -> fixed instant"],
    "bounds": ["remaining and increment <= 2^32 ms (quick) / 2^40 ms (thorough); moves-to-go in [1, 2^32); overhead in [0,1000] and <= remaining/2"],
    "outside": ["'given at least a fifth of a second, a search returns before the clock runs out': needs real time and a whole search"],
    "assumptions": ["oracle for 'half': hard <= avail/2 + avail*2^-(s+1) + 1ns with s = 8 (quick) / 14 (thorough) - the engine computes the half through f32 seconds (24-bit mantissa), so an exact "
                    "rational half is unattainable for large clocks; the slack is a few f32 ulps and is part of the stated oracle"],
    "trusted_base": ["kani 0.68.0", "cbmc 6.11.0 floating-point bit-blasting", "cadical"],
    "explanation": "Allocation arithmetic decided for all clock tuples in range; the wall-clock sentence is outside the claim.",
}
MANIFEST = {
    "text": "Partial claim, hence 'other': for every (remaining, increment, moves-to-go >= 1, overhead <= min(1000, remaining/2), side, which "
            "clocks are supplied) in range the solver shows over the compiled Duration/f32 code that soft <= hard, hard <= half of the "
            "remaining time after overhead (up to the engine's own f32 resolution, relative 2^-9 quick / 2^-15 thorough), no panic (no division by zero, no "
            "Duration overflow), and that a fixed move time is used as given. The wall-clock sentence is NOT claimed.",
    "note": "Clocks up to 2^32 ms (quick); Instant::now stubbed; f32 slack stated in the oracle.",
    "design_ref": "DESIGN.md s.4 C14",
}


def jobs(tier, seed):
    bound = BOUND_THOROUGH if tier == "thorough" else BOUND_QUICK
    if os.environ.get("C14_BOUND_LOG2"):
        bound = 1 << int(os.environ["C14_BOUND_LOG2"])
    # the f32 slack in "at most half" the solver can prove in reasonable time: 2^-8 in 26 s (quick), 2^-14 in ~17 min (thorough); 2^-21 did not finish in 25 min
    shift = int(os.environ.get("C14_SLACK_SHIFT", SLACK_SHIFT if tier == "thorough" else 8))
    t = 3000 if tier == "thorough" else 1500
    return [
        Job("c14_exact_and_infinite", "ExactTime(t) => soft = hard = t; Infinite => no limits", timeout=600, module="c14",
            gen=f"pub const C14_BOUND_S: u64 = {bound};\npub const C14_SLACK_SHIFT: u32 = {shift};\n"),
        Job("c14_lemma_half", f"real Duration::mul_f32(0.5): 2r <= d + d*2^-{shift} + 2ns for every ns-resolution d <= bound; no panic", timeout=t, mem_gb=20, module="c14", params={"bound_s": bound}),
        Job("c14_lemma_size", "real Duration::mul_f32: d*f <= d for f in {0.033, 0.5, 0.75}, d*3.0 <= 4d, all d <= 2*bound+1s", timeout=t, mem_gb=20, module="c14", params={"bound_s": bound}),
        Job("c14_lemma_monotone", "real Duration::mul_f32: d*0.75 <= d*3.0, no panic for 0.033/0.75/3.0, all d <= 2*bound+1s (ns resolution)", timeout=t, mem_gb=20, module="c14", params={"bound_s": bound}),
        Job("c14_clocks_no_mtg", "clocks without moves-to-go: soft <= hard <= half(avail), no panic", timeout=t, mem_gb=20, module="c14", params={"bound_s": bound}),
        Job("c14_clocks_mtg", "clocks with moves-to-go >= 1: soft <= hard <= half(avail), no panic", timeout=t, mem_gb=20, module="c14", params={"bound_s": bound}),
    ]


def decode(job, vals):
    return {"any_values": [int.from_bytes(bytes(v), "little") for v in vals[:8]]}
