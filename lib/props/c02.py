from vdriver import Job

ID = "C02"
LEVEL = "model_checking"
MAIN = "c02"
MODULES = ["geom", "pos", "stubs", "step", "c02"]
ACCESS = None
DUMP = []
PARALLEL = 16

META = {
    "functions_encoded": ["chess::game::Game::{make_move, undo_move, make_null_move, undo_null_move, set_at, remove_at, try_remove_castle_rights}",
                          "chess::board::Board::{set_at, remove_at, piece_at, pawns}", "chess::square::squares::{castle_squares, king_start, kingside_rook_start, queenside_rook_start}",
                          "chess::square::Square::{forward, backward, bb}", "chess::moves::Move::{src, dst, promotion, is_en_passant, is_castling, flags}",
                          "chess::zobrist::ZobristHash::toggle_* and IncrementalEvalFields::{set_at, remove_at} (tables all-zero here; their content is C03/C15)"],
    "stubs": ["ZobristHash::{toggle_piece_on_square, toggle_castle_rights, set_en_passant, toggle_side_to_play} and IncrementalEvalFields::{set_at, remove_at} -> no-ops (key/accumulator content is decided by C03/C15 on the same step; here only placement and state are the subject)"],
    "bounds": ["no bound on pieces: the pre-state is ANY position satisfying the validity predicate (up to 32+ pieces anywhere), any halfmove clock / ply "
               "counter < 2^30, history of length 0 or 1 with arbitrary content; the move is ANY raw 16-bit value that is the encoding of an oracle-legal move",
               "one make (+ one null move) and the matching take-backs per query; arbitrary nesting depth follows by induction because each pair restores everything incl. history length"],
    "outside": ["Vec push/pop semantics of the history stack are trusted to Kani's std model"],
    "assumptions": ["legal moves = the make-then-test oracle of harness/verif/pos.rs (tied to the generator by C01)",
                    "en-passant target convention: recorded only when an enemy pawn stands beside the double-pushed pawn (game.rs comment)"],
    "trusted_base": ["kani 0.68.0", "cbmc 6.11.0", "cadical"],
    "explanation": "One inductive step from an arbitrary valid state.",
}
MANIFEST = {
    "text": "Bounded model checking by one-step induction with NO piece-count bound: from any valid position (all twelve bitboards symbolic), any "
            "counters, and any oracle-legal move (all 16 bits symbolic), the real make_move yields exactly the placement, side, castling rights, "
            "en-passant target, halfmove clock and ply counter the rules prescribe (independent make-then-test oracle), the three board views agree "
            "on every square, and undo_move / null move / undo_null_move restore every field including key, accumulators and history length; two "
            "nested harnesses check stack discipline. Arbitrary nesting follows by induction.",
    "note": "History Vec semantics trusted; oracle-legal moves assumed to be what the generator emits (C01); zobrist/PST content is C03/C15's subject.",
    "design_ref": "DESIGN.md s.4 C02",
}


STUBS = [
    ("crate::chess::zobrist::ZobristHash::toggle_piece_on_square", "c02::nop_toggle_piece"),
    ("crate::chess::zobrist::ZobristHash::toggle_castle_rights", "c02::nop_toggle_castle"),
    ("crate::chess::zobrist::ZobristHash::set_en_passant", "c02::nop_set_ep"),
    ("crate::chess::zobrist::ZobristHash::toggle_side_to_play", "c02::nop_toggle_side"),
    ("crate::engine::eval::IncrementalEvalFields::set_at", "c02::nop_eval_set"),
    ("crate::engine::eval::IncrementalEvalFields::remove_at", "c02::nop_eval_remove"),
]
KINDS = ["pawn", "knight", "bishop", "rook", "queen", "king"]


def inst(fn, kind, side):
    name = f"c02_{fn}_{KINDS[kind]}_{'wb'[side]}"
    attrs = ["#[kani::proof]"] + [f"#[kani::stub({a}, {b})]" for a, b in STUBS]
    return name, "\n".join(attrs) + f"\npub fn {name}() {{ c02::{fn}({kind}, {side}); }}\n"


def jobs(tier, seed):
    import random
    js = [Job("c02_null_undo", "null move / take-back, any valid position", timeout=1200, mem_gb=16, checks="functional", witness=False)]
    rnd = random.Random(seed)
    for fn, desc in (("make_undo", "make_move == rules; undo_move restores all"), ("nested_make_null", "make; null; undo_null; undo"),
                     ("nested_null_make", "null; make; undo; undo_null")):
        for kind in range(6):
            sides = (0, 1) if (tier == "thorough" or fn == "make_undo") else (rnd.randrange(2),)
            for side in sides:
                n, src = inst(fn, kind, side)
                js.append(Job(n, f"{desc}; moving {KINDS[kind]}, {'white' if side == 0 else 'black'} to move, any valid position", gen=src, timeout=2400, mem_gb=16, weight_gb=1.5,
                              checks="functional", witness=False, params={"moving_kind": KINDS[kind], "white_to_move": side == 0}))
    return js


def decode(job, vals):
    return None
