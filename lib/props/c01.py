import os
import random
from vdriver import Job

ID = "C01"
LEVEL = "model_checking"
MAIN = "c01"
MODULES = ["geom", "pos", "stubs", "c01"]
ACCESS = None
DUMP = []
PARALLEL = 16

GENS = [
    # (id, name, private fn, no-op stub, loop-bound rules, default max_own)
    (0, "pawn_caps", "generate_pawn_captures", "no_pawn_caps", 8),
    (1, "pawn_quiets", "generate_pawn_quiets", "no_pawn_quiets", 8),
    (2, "knight_caps", "generate_knight_captures", "no_piece5", 4),
    (3, "knight_quiets", "generate_knight_quiets", "no_piece5", 4),
    (4, "diag_caps", "generate_diagonal_slider_captures", "no_piece6", 4),
    (5, "diag_quiets", "generate_diagonal_slider_quiets", "no_piece5", 4),
    (6, "orth_caps", "generate_orthogonal_slider_captures", "no_piece6", 4),
    (7, "orth_quiets", "generate_orthogonal_slider_quiets", "no_piece5", 4),
    (8, "king_caps", "generate_king_captures", "no_king", 0),
    (9, "king_quiets", "generate_king_quiets", "no_king", 0),
    (10, "castles", "generate_castles", "no_castles", 0),
]

GEOM_STUBS = [
    ("crate::chess::movegen::tables::magics::rook_attacks", "stubs::s_rook"),
    ("crate::chess::movegen::tables::magics::bishop_attacks", "stubs::s_bishop"),
    ("crate::chess::movegen::tables::knights::knight_attacks", "stubs::s_knight"),
    ("crate::chess::movegen::tables::king::king_attacks", "stubs::s_king"),
    ("crate::chess::movegen::tables::pawns::pawn_attacks", "stubs::s_pawn"),
    ("crate::chess::movegen::tables::between::between", "stubs::s_between"),
]

SQ = lambda s: 64 if s == "any" else (ord(s[0]) - 97) + 8 * (int(s[1]) - 1)
SQN = lambda i: "any" if i >= 64 else "abcdefgh"[i % 8] + str(i // 8 + 1)


def instance(gid, wtm, ksq, max_own, max_total):
    g = GENS[gid]
    name = f"c01_{g[1]}_{'w' if wtm else 'b'}_{SQN(ksq)}" + (f"_t{max_total}" if max_total else "")
    attrs = ["#[kani::proof]"]
    for a, b in GEOM_STUBS:
        attrs.append(f"#[kani::stub({a}, {b})]")
    attrs.append("#[kani::stub(arrayvec::ArrayVec::push, stubs::monitor_push)]")
    for o in GENS:
        if o[0] != gid:
            attrs.append(f"#[kani::stub(crate::chess::movegen::gen::{o[2]}, c01::{o[3]})]")
    src = "\n".join(attrs) + f"\npub fn {name}() {{ c01::check_gen({gid}, {str(wtm).lower()}, {ksq}, {max_own if max_own else 64}, {max_total}); }}\n"
    return name, src


def unwindset(gid, max_own):
    """per-loop bounds (names as printed by cbmc --show-loops, v0-mangled, matched by substring)"""
    fn = GENS[gid][2]
    us = {"3pos5valid.0": 7, "3pos5valid.1": 7, "3pos10legal_move.0": 7, "8get_pins.0": 5, "8get_pins.1": 5}
    own = (max_own or 0) + 1
    if gid in (0, 1):      # pawn generators: several loops, outer <= pawns+1, inner <= 3; all set to pawns+1
        for i in range(8):
            us[f"{fn}.{i}"] = max(own, 3)
    # cbmc numbers the INNER loop (destinations) .0 and the outer loop (pieces) .1
    elif gid in (2, 3):
        us[f"{fn}.0"] = 9
        us[f"{fn}.1"] = own
    elif gid in (4, 5):
        us[f"{fn}.0"] = 14
        us[f"{fn}.1"] = own
    elif gid in (6, 7):
        us[f"{fn}.0"] = 15
        us[f"{fn}.1"] = own
    elif gid in (8, 9):
        us[f"{fn}.0"] = 9
    return us

META = {
    "functions_encoded": ["chess::movegen::gen::{generate_legal_moves, generate_captures, generate_quiets} + one of the eleven private generators per query "
                          "(generate_pawn_captures, generate_pawn_quiets, generate_knight_captures/_quiets, generate_diagonal_slider_captures/_quiets, "
                          "generate_orthogonal_slider_captures/_quiets, generate_king_captures/_quiets, generate_castles + generate_castle_move_for_side)",
                          "chess::movegen::attackers::generate_attackers_of", "chess::movegen::pins::get_pins",
                          "chess::board::Board::{clone, remove_at, king_in_check, pawns, knights, diagonal_sliders, orthogonal_sliders, king, occupancy, occupancy_for}",
                          "chess::moves::Move::{quiet, capture, castles, en_passant, quiet_promotion, capture_promotion}", "chess::game::Game::is_king_in_check",
                          "chess::bitboard::{Bitboard operators and shifts, SquareIterator::next, pop_lsb_inplace, bitboards::castle_squares, pawn_back_rank}"],
    "stubs": ["the six table look-ups (rook/bishop/knight/king/pawn attacks, between) -> straight-line geometry; equality with the real tables for every "
              "square and occupancy is C07's verdict",
              "arrayvec::ArrayVec::push -> monitor counting pushes equal to ONE arbitrary watched 16-bit move (so: none missing, none illegal, none twice, "
              "every flag bit right); the list's capacity (218) is not modelled",
              "per query the ten other private generators -> no-ops; sound because generators communicate with the list through push only (by inspection: "
              "they receive &mut MoveList and only call push)"],
    "bounds": ["the whole position is symbolic (twelve bitboards, side given by the case, rights, ep target) under the property's validity predicate - "
               "up to 30 other men anywhere",
               "case split (one SAT query each): generator x side to move x own-king square; quick: home square + one seeded square per colour (+ one seeded far-rank square for the two pawn generators); thorough: all 64",
               "own men the generator loops over: <= 8 pawns / <= 4 knights / <= 4 diagonal sliders (bishops+queens) / <= 4 orthogonal sliders (rooks+queens); "
               "more is outside the claim (loop bounds, unwinding assertions on)"],
    "outside": ["king squares not run in this tier (listed per run in samples)", "more own knights/sliders than the loop bounds", "ArrayVec capacity"],
    "assumptions": ["oracle = make-then-test rules in harness/verif/pos.rs (shares no logic with check masks / pin masks)",
                    "validity predicate = the property's 'legal position' (superset of reachable positions)"],
    "trusted_base": ["kani 0.68.0", "cbmc 6.11.0", "cadical", "C07 (geometry == tables)"],
    "explanation": "For each (generator, side, king square) the solver decides, over all placements of all other men and one arbitrary watched move w, that "
                   "the number of times w is pushed is 1 if w is exactly the encoding of a legal move in that generator's class and 0 otherwise.",
}
MANIFEST = {
    "text": "Bounded model checking of the real generators on fully symbolic positions: per (generator, side to move, own-king square) one SAT query covers "
            "EVERY placement of all other men (up to 32 men, rights, en-passant target, under the property's validity predicate) and one arbitrary watched "
            "16-bit move, asserting it is pushed exactly once iff it is exactly the encoding (capture / en-passant / castle / promotion bits included) of a "
            "move that is legal by an independent make-then-test oracle, and never otherwise. Summed over the eleven generators this is exactness of the "
            "generated list. Quick runs two king squares per colour, thorough all 64. The in-check verdict is compared with the rules on every valid position.",
    "note": "Table look-ups replaced by geometry (C07); loop bounds on own knights/sliders (4) and pawns (8); king squares not run are not covered; list capacity not modelled.",
    "design_ref": "DESIGN.md s.4 C01",
}

QUICK_POOL_W = ["d4", "a1", "h1", "c3", "g2", "b5", "e6", "h4", "a7", "f8", "d1", "g1", "c1", "e2", "h8", "a4"]


def make_job(gid, wtm, sq, timeout, max_own=None, max_total=0):
    g = GENS[gid]
    mo = g[4] if max_own is None else max_own
    name, src = instance(gid, wtm, sq, mo, max_total)
    return Job(name, f"{g[1]}: watched move pushed once iff legal and in class; {'white' if wtm else 'black'} king on {SQN(sq)}, all other men symbolic",
               gen=src, timeout=timeout, mem_gb=24, weight_gb=6 if gid == 0 else 2.5, checks="functional", witness=False, unwind=2, unwindset=unwindset(gid, mo),
               params={"generator": g[1], "white": wtm, "king": SQN(sq), "max_own_looped": mo, "max_total": max_total},
               # castling is only possible from the home square: elsewhere the harness shows "never emitted" and has no positive witness
               min_covers=0 if (gid == 10 and sq != (4 if wtm else 60)) else 1)


def in_check_job():
    src = "#[kani::proof]\n" + "\n".join(f"#[kani::stub({a}, {b})]" for a, b in GEOM_STUBS) + "\npub fn c01_in_check_all() { c01::c01_in_check_body(); }\n"
    return Job("c01_in_check_all", "is_king_in_check == rules on every valid position (all king squares, both sides)", gen=src, timeout=1800, mem_gb=16,
               checks="functional", witness=False, unwind=8)


def jobs(tier, seed):
    js = []
    spec = os.environ.get("C01_SPEC")  # experiment hook: "gid:w|b:sq:max_own:max_total,..."
    if spec:
        for it in spec.split(","):
            gid, c, sq, mo, mt = it.split(":")
            js.append(make_job(int(gid), c == "w", SQ(sq), int(os.environ.get("C01_TIMEOUT", "3600")), int(mo), int(mt)))
        return js
    js.append(in_check_job())
    if tier == "thorough":
        squares = range(64)
        if os.environ.get("C01_SQUARES"):   # sub-sample of the thorough tier (development / time-boxed runs)
            squares = [SQ(x) for x in os.environ["C01_SQUARES"].split(",")]
        for gid in range(11):
            for wtm in (True, False):
                for sq in squares:
                    js.append(make_job(gid, wtm, sq, 5400))
        return js
    rnd = random.Random(seed)
    extra_w = SQ(rnd.choice(QUICK_POOL_W))
    extra_b = SQ(rnd.choice(QUICK_POOL_W)) ^ 56
    # pawn logic interacts with where the own king stands relative to the pawns: behind them (home ranks), level, or in front of them near
    # the promotion rank (pins of 7th-rank pawns). The pawn generators therefore get one more seeded king square from the far ranks.
    far_w = rnd.choice([40, 42, 45, 47, 56, 59, 61, 63, 50, 53])   # a6 c6 f6 h6 a8 d8 f8 h8 c7 f7
    far_b = rnd.choice([40, 42, 45, 47, 56, 59, 61, 63, 50, 53]) ^ 56
    for gid in range(11):
        for wtm, squares in ((True, [SQ("e1"), extra_w] + ([far_w] if gid in (0, 1) and far_w != extra_w else [])),
                             (False, [SQ("e8"), extra_b] + ([far_b] if gid in (0, 1) and far_b != extra_b else []))):
            for sq in squares:
                # pawn captures with 8 pawns take ~27 min per query; quick bounds the looped-over pawns by 4 (thorough: 8)
                js.append(make_job(gid, wtm, sq, 2400, max_own=4 if gid == 0 else None))
    return js


def decode(job, vals):
    return None
