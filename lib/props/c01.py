import os
import random
from vdriver import Job

ID = "C01"
LEVEL = "model_checking"
MAIN = "c01"
MODULES = ["geom", "pos", "stubs", "c01"]
ACCESS = None
DUMP = []
PARALLEL = 16

GENS = [
    # (id, name, private fn, no-op stub, loop-bound rules, default max_own)
    (0, "pawn_caps", "generate_pawn_captures", "no_pawn_caps", 8),
    (1, "pawn_quiets", "generate_pawn_quiets", "no_pawn_quiets", 8),
    (2, "knight_caps", "generate_knight_captures", "no_piece5", 4),
    (3, "knight_quiets", "generate_knight_quiets", "no_piece5", 4),
    (4, "diag_caps", "generate_diagonal_slider_captures", "no_piece6", 4),
    (5, "diag_quiets", "generate_diagonal_slider_quiets", "no_piece5", 4),
    (6, "orth_caps", "generate_orthogonal_slider_captures", "no_piece6", 4),
    (7, "orth_quiets", "generate_orthogonal_slider_quiets", "no_piece5", 4),
    (8, "king_caps", "generate_king_captures", "no_king", 0),
    (9, "king_quiets", "generate_king_quiets", "no_king", 0),
    (10, "castles", "generate_castles", "no_castles", 0),
]

GEOM_STUBS = [
    ("crate::chess::movegen::tables::magics::rook_attacks", "stubs::s_rook"),
    ("crate::chess::movegen::tables::magics::bishop_attacks", "stubs::s_bishop"),
    ("crate::chess::movegen::tables::knights::knight_attacks", "stubs::s_knight"),
    ("crate::chess::movegen::tables::king::king_attacks", "stubs::s_king"),
    ("crate::chess::movegen::tables::pawns::pawn_attacks", "stubs::s_pawn"),
    ("crate::chess::movegen::tables::between::between", "stubs::s_between"),
]

SQ = lambda s: (ord(s[0]) - 97) + 8 * (int(s[1]) - 1)
SQN = lambda i: "abcdefgh"[i % 8] + str(i // 8 + 1)


def instance(gid, wtm, ksq, max_own, max_total):
    g = GENS[gid]
    name = f"c01_{g[1]}_{'w' if wtm else 'b'}_{SQN(ksq)}" + (f"_t{max_total}" if max_total else "")
    attrs = ["#[kani::proof]"]
    for a, b in GEOM_STUBS:
        attrs.append(f"#[kani::stub({a}, {b})]")
    attrs.append("#[kani::stub(arrayvec::ArrayVec::push, stubs::monitor_push)]")
    for o in GENS:
        if o[0] != gid:
            attrs.append(f"#[kani::stub(crate::chess::movegen::gen::{o[2]}, c01::{o[3]})]")
    src = "\n".join(attrs) + f"\npub fn {name}() {{ c01::check_gen({gid}, {str(wtm).lower()}, {ksq}, {max_own if max_own else 64}, {max_total}); }}\n"
    return name, src


def unwindset(gid, max_own):
    """per-loop bounds (names as printed by cbmc --show-loops, v0-mangled, matched by substring)"""
    fn = GENS[gid][2]
    us = {"3pos5valid.0": 7, "3pos5valid.1": 7, "3pos10legal_move.0": 7, "8get_pins.0": 5, "8get_pins.1": 5}
    own = (max_own or 0) + 1
    if gid in (0, 1):      # pawn generators: several loops, outer <= pawns+1, inner <= 3; all set to pawns+1
        for i in range(8):
            us[f"{fn}.{i}"] = max(own, 3)
    # cbmc numbers the INNER loop (destinations) .0 and the outer loop (pieces) .1
    elif gid in (2, 3):
        us[f"{fn}.0"] = 9
        us[f"{fn}.1"] = own
    elif gid in (4, 5):
        us[f"{fn}.0"] = 14
        us[f"{fn}.1"] = own
    elif gid in (6, 7):
        us[f"{fn}.0"] = 15
        us[f"{fn}.1"] = own
    elif gid in (8, 9):
        us[f"{fn}.0"] = 9
    return us

META = {
    "functions_encoded": ["chess::movegen::gen::{generate_legal_moves, generate_captures, generate_quiets} + one of the eleven private generators per query",
                          "chess::movegen::attackers::generate_attackers_of", "chess::movegen::pins::get_pins",
                          "chess::board::Board::{clone, remove_at, king_in_check, pieces_of_kind, ...}", "chess::moves::Move::{quiet, capture, castles, en_passant, quiet_promotion, capture_promotion}",
                          "chess::game::Game::is_king_in_check", "chess::bitboard::{Bitboard ops, SquareIterator::next, bitboards::castle_squares}"],
    "stubs": ["the six table look-ups -> straight-line geometry (equality with the real tables is C07's verdict)",
              "arrayvec::ArrayVec::push -> monitor counting pushes equal to one arbitrary watched 16-bit move (list capacity 218 not modelled)",
              "per query the ten other private generators -> no-ops (they communicate with the list through push only)"],
    "bounds": [], "outside": [], "assumptions": [], "trusted_base": ["kani 0.68.0", "cbmc 6.11.0", "cadical"],
    "explanation": "",
}
MANIFEST = {"text": "placeholder", "note": "placeholder", "design_ref": "DESIGN.md s.4 C01"}


def jobs(tier, seed):
    js = []
    spec = os.environ.get("C01_SPEC")  # experiment hook: "gid:w|b:sq:max_own:max_total,..."
    if spec:
        for it in spec.split(","):
            gid, c, sq, mo, mt = it.split(":")
            name, src = instance(int(gid), c == "w", SQ(sq), int(mo), int(mt))
            js.append(Job(name, f"generator {GENS[int(gid)][1]}", gen=src, timeout=int(os.environ.get("C01_TIMEOUT", "3600")), mem_gb=24,
                          checks="functional", witness=False, unwind=int(os.environ.get("C01_UNWIND", "2")), unwindset=unwindset(int(gid), int(mo)),
                          params={"generator": GENS[int(gid)][1], "white": c == "w", "king": sq, "max_own": int(mo), "max_total": int(mt)}))
        return js
    return js
