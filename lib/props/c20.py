from vdriver import Job

ID = "C20"
LEVEL = "model_checking"
MAIN = "c20"
MODULES = ["geom", "pos", "stubs", "step", "c20"]
ACCESS = None
DUMP = []
PARALLEL = 16

GEOM_STUBS = [
    ("crate::chess::movegen::tables::magics::rook_attacks", "stubs::s_rook"),
    ("crate::chess::movegen::tables::magics::bishop_attacks", "stubs::s_bishop"),
    ("crate::chess::movegen::tables::knights::knight_attacks", "stubs::s_knight"),
    ("crate::chess::movegen::tables::king::king_attacks", "stubs::s_king"),
    ("crate::chess::movegen::tables::pawns::pawn_attacks", "stubs::s_pawn"),
    ("crate::chess::movegen::tables::between::between", "stubs::s_between"),
]

META = {
    "functions_encoded": ["engine::see::{see, piece_value}", "chess::movegen::attackers::all_attackers_of", "chess::board::Board::{piece_at, occupancy, occupancy_for, pieces_of_kind, "
                          "all_diagonal_sliders, all_orthogonal_sliders}", "engine::eval::Eval arithmetic"],
    "stubs": ["six table look-ups -> geometry (C07)"],
    "bounds": ["three-clause harness: any valid position with at most N men (quick 5, thorough 7); swap-list harness: at most one man of each kind per colour, i.e. up to 10 men (no further bound), any legal non-en-passant capture incl. capturing promotions; exchange loop unwound N+1", "case split (one SAT query each): target square x side to move; quick: d5 + 2 seeded squares + d4 for black; thorough: all 64 x 2"],
    "outside": ["positions with more men than the bound (longer exchanges)", "en-passant captures (excluded by the property)"],
    "assumptions": ["swap-list oracle in harness/verif/c20.rs uses the same piece values (100/300/300/500/900/10000)"],
    "trusted_base": ["kani 0.68.0", "cbmc 6.11.0", "cadical", "C07"],
    "explanation": "All positions of up to N men and all captures at once per query.",
}
MANIFEST = {
    "text": "Bounded model checking on fully symbolic positions of at most N men (quick 5, thorough 7): for every legal non-en-passant capture (promotions included) the "
            "solver shows the real see(.., 0) verdict is invariant under colour swap + board flip, is favourable when no enemy man attacks the target after the capture, "
            "is favourable when the captured man is worth at least the capturer, and - where every kind occurs at most once per colour, so attacker choice cannot "
            "matter - equals an independent gain-list/minimax swap computation with x-ray refresh.",
    "note": "Men bounded (exchange length); table look-ups replaced by geometry; oracle swap list shares only the piece values with the code.",
    "design_ref": "DESIGN.md s.4 C20",
}


SQN = lambda i: "abcdefgh"[i % 8] + str(i // 8 + 1)
POOL = [35, 28, 0, 7, 56, 63, 4, 60, 24, 31, 18, 45, 9, 54, 3, 59]  # d5 e4 corners e1 e8 a4 h4 c3 f6 b2 g7 d1 d8


def inst(kind, n, dst, side):
    name = f"c20_{kind}_m{n}_{SQN(dst)}_{'wb'[side]}"
    attrs = ["#[kani::proof]", f"#[kani::unwind({max(n, 7) + 2})]"] + [f"#[kani::stub({a}, {b})]" for a, b in GEOM_STUBS]
    fn = {"basic": "basic", "swap": "versus_swap_list"}[kind]
    return name, "\n".join(attrs) + f"\npub fn {name}() {{ c20::{fn}({n}, {dst}, {side}); }}\n"


def jobs(tier, seed):
    import os, random
    rnd = random.Random(seed)
    n = int(os.environ.get("C20_MEN", 7 if tier == "thorough" else 6))
    t = 10000 if tier == "thorough" else 2400
    if tier == "thorough":
        cases = [(d, s) for d in range(64) for s in (0, 1)]
    else:
        cases = [(35, 0), (rnd.choice(POOL[1:]), rnd.randrange(2)), (35 ^ 56, 1)]
    if os.environ.get("C20_CASES"):
        cases = [(int(x.split(":")[0]), int(x.split(":")[1])) for x in os.environ["C20_CASES"].split(",")]
    js = []
    for d, s_ in cases:
        for kind in ("basic", "swap"):
            # the three-clause harness runs see() twice (mirror) and is ~2.5x dearer: one man fewer in quick
            nn = n - 1 if (kind == "basic" and tier != "thorough" and not os.environ.get("C20_MEN")) else n
            # the swap-list comparison restricts every kind to one man per colour (at most 10 men on the board); with the target square fixed its cost
            # barely depends on the men bound (measured: 6 men 200-600 s, 8 men 327 s, 10 men 398 s), so it runs without an effective bound
            if kind == "swap" and not os.environ.get("C20_MEN"):
                nn = 10
            name, src = inst(kind, nn, d, s_)
            js.append(Job(name, f"SEE {kind}: all positions of <= {nn} men, all non-ep captures on {SQN(d)} by {'white' if s_ == 0 else 'black'}", gen=src, timeout=t, mem_gb=24,
                          checks="functional", witness=False, params={"max_men": nn, "target": SQN(d), "white_to_move": s_ == 0}, min_covers=2))
    return js


def decode(job, vals):
    return None
