import os
import random
import subprocess
from vdriver import Job

ID = "C10"
# not claimed: see NOT_CLAIMED_REASON; the harness is kept runnable (bin/check C10) for the record but is not registered in MANIFEST.checks
CLAIMED = False
NOT_CLAIMED_REASON = ("MovePicker::next works on a 218-slot move list and a 255-slot score array inside large by-value structs; with symbolic hash/killer/counter moves the "
                      "selection sort swaps at symbolic indices and CBMC's encoding explodes (measured: 3 legal moves with arbitrary history scores = 24 M variables / 130 M "
                      "clauses, out of memory at 20 GB; a 27-move position with generators, SEE and history concretised runs out of memory during symbolic execution; "
                      "only a 2-move position verifies). The position corpus that does finish is too small to carry the property (DESIGN.md s.6)")
LEVEL = "model_checking"
MAIN = "c10"
MODULES = ["geom", "pos", "stubs", "c10"]
ACCESS = None
DUMP = []
PARALLEL = 8

# corpus: the repository's own picker / SEE / perft FENs plus crafted ones (losing captures, promotions, ep, checks, few moves)
CORPUS = [
    ("picker_no_bad_caps", "rnbqkb1r/ppp1pppp/5n2/3p4/4P3/2N5/PPPP1PPP/R1BQKBNR w KQkq - 0 3"),
    ("picker_ep", "r1bqkb1r/ppp1pppp/2n2n2/2Pp4/8/5N2/PP1PPPPP/RNBQKB1R w KQkq d6 0 4"),
    ("picker_qs", "rnb1kbnr/ppp1pppp/8/3p4/4P3/8/PPPP1PPP/RNBQKBNR w KQkq - 0 2"),
    ("picker_see_bug", "r2k3r/1b4bq/8/3R4/8/8/7B/4K2R b K - 3 2"),
    ("picker_bad_caps", "rnbqkbnr/pp1ppppp/8/2p5/3P4/5N2/PPP1PPPP/RNBQKB1R b KQkq - 0 2"),
    ("promo_caps", "1n1r4/P1P1k3/8/8/8/8/4K1p1/5N1R b - - 0 1"),
    ("promo_white", "1n1r4/P1P1k3/8/8/8/8/4K1p1/5N1R w - - 0 1"),
    ("in_check_few", "4k3/8/8/8/8/8/3PPP2/r3K3 w - - 0 1"),
    ("losing_and_winning", "4k3/2p5/1p1b4/3N4/4P3/8/8/4K2R w K - 0 1"),
    ("kiwipete_small", "4k2r/p1pp1pb1/1n2pnp1/3PN3/1p2P3/2N5/PPPB1PPP/R3K3 w Qk - 0 1"),
    ("only_king", "8/8/8/8/8/5k2/8/7K w - - 0 1"),
    ("startpos", "rnbqkbnr/pppppppp/8/8/8/8/PPPPPPPP/RNBQKBNR w KQkq - 0 1"),
]

GEOM_STUBS = [
    ("crate::chess::movegen::tables::magics::rook_attacks", "stubs::s_rook"),
    ("crate::chess::movegen::tables::magics::bishop_attacks", "stubs::s_bishop"),
    ("crate::chess::movegen::tables::knights::knight_attacks", "stubs::s_knight"),
    ("crate::chess::movegen::tables::king::king_attacks", "stubs::s_king"),
    ("crate::chess::movegen::tables::pawns::pawn_attacks", "stubs::s_pawn"),
    ("crate::chess::movegen::tables::between::between", "stubs::s_between"),
]

LETTERS = {"P": (0, 0), "N": (0, 1), "B": (0, 2), "R": (0, 3), "Q": (0, 4), "K": (0, 5), "p": (1, 0), "n": (1, 1), "b": (1, 2), "r": (1, 3), "q": (1, 4), "k": (1, 5)}


def bpos_literal(fen):
    f = fen.split()
    pcs = [[0] * 6 for _ in range(2)]
    for ri, row in enumerate(f[0].split("/")):
        rank = 7 - ri
        file = 0
        for ch in row:
            if ch.isdigit():
                file += int(ch)
            else:
                c, k = LETTERS[ch]
                pcs[c][k] |= 1 << (rank * 8 + file)
                file += 1
    wtm = "true" if f[1] == "w" else "false"
    r = f[2]
    rights = f"[[{str('K' in r).lower()}, {str('Q' in r).lower()}], [{str('k' in r).lower()}, {str('q' in r).lower()}]]"
    ep = 64 if f[3] == "-" else (ord(f[3][0]) - 97) + 8 * (int(f[3][1]) - 1)
    rows = ", ".join("[" + ", ".join(hex(x) for x in pcs[c]) + "]" for c in range(2))
    return f"pos::BPos {{ pcs: [{rows}], white_to_move: {wtm}, rights: {rights}, ep: {ep} }}"


DUMP_EXTRA_BODY = """        {
            let fens: [&str; %d] = [%s];
            let mut caps: Vec<u64> = Vec::new();
            let mut quiets: Vec<u64> = Vec::new();
            for f in fens {
                let g = crate::chess::game::Game::from_fen(f).unwrap();
                let mut ml = crate::chess::moves::MoveList::new();
                let mut cache = crate::chess::movegen::MovegenCache::new();
                crate::chess::movegen::generate_captures(&g, &mut ml, &mut cache);
                let nc = ml.len();
                crate::chess::movegen::generate_quiets(&g, &mut ml, &cache);
                // per position: count, then (raw move, see verdict) pairs
                caps.push(nc as u64);
                for i in 0..nc {
                    let m = ml[i];
                    caps.push(unsafe { core::mem::transmute::<crate::chess::moves::Move, u16>(m) } as u64);
                    let v = if m.is_capture() && !m.is_en_passant() { crate::engine::see::see(&g, m, crate::engine::eval::Eval(0)) } else { false };
                    caps.push(v as u64);
                }
                quiets.push((ml.len() - nc) as u64);
                for i in nc..ml.len() { quiets.push(unsafe { core::mem::transmute::<crate::chess::moves::Move, u16>(ml[i]) } as u64); }
                // the full generator must agree with the two stages (sanity of the concretisation)
                let all = g.moves();
                assert_eq!(all.len(), ml.len());
            }
            j("C10_CAPS", &caps, &mut out);
            j("C10_QUIETS", &quiets, &mut out);
        }
""" % (len(CORPUS), ", ".join('"%s"' % f for _, f in CORPUS))


META = {
    "functions_encoded": ["engine::search::move_picker::MovePicker::{new, new_loud, next, next_best_move}", "engine::search::move_ordering::{score_tactical, score_quiet}",
                          "engine::see::see", "engine::search::tables::{KillersTable::{get_0,get_1}, CountermoveTable::{get,set}}",
                          "chess::movegen::{generate_captures, generate_quiets, generate_legal_moves} and the generators underneath", "arrayvec::ArrayVec::{push, swap, get, len}"],
    "stubs": ["six table look-ups -> geometry (C07)", "HistoryTable::get -> an arbitrary score in [0, HISTORY_MAX_SCORE] per look-up (superset of all table contents)",
              "std::time::Instant::now -> fixed instant (needed to build a SearchContext)"],
    "bounds": ["positions are CONCRETE (corpus listed in samples; generators and SEE constant-fold); symbolic: hash move (none or any legal move), both killers and "
               "the counter move (any 16-bit values or none), previous move, every history score, ply"],
    "outside": ["positions outside the corpus", "legality of the generated list itself is C01"],
    "assumptions": [], "trusted_base": ["kani 0.68.0", "cbmc 6.11.0", "cadical"],
    "explanation": "What the solver decides is every content of the ordering tables for each corpus position - where the stage/cursor logic can drop or double a move.",
}
MANIFEST = {
    "text": "Bounded model checking over the ordering state: for each position of a stated corpus (concrete), the solver covers EVERY hash move (none or any "
            "legal move), EVERY pair of killers and counter move (arbitrary 16-bit moves, legal here or not), EVERY assignment of history scores and every ply, "
            "and shows that the real staged picker terminates and yields exactly the legal moves, each once; the captures-only picker yields a duplicate-free "
            "subset of the legal moves containing every capture and queen promotion.",
    "note": "Positions are a finite corpus (not symbolic); table look-ups replaced by geometry; HistoryTable::get over-approximated by arbitrary scores.",
    "design_ref": "DESIGN.md s.4 C10",
}

QUICK_ALWAYS = ["picker_see_bug", "picker_ep", "promo_caps", "in_check_few", "only_king", "losing_and_winning"]


SMALL = 8   # up to this many legal moves every history score is arbitrary; above, the history table is empty (stated bound)


def instance(name, fen, caps, see_ok, quiets, loud, use_hash):
    hn = f"c10_{'loud' if loud else 'full'}_{'hash' if use_hash else 'nohash'}_{name}"
    n_legal = len(caps) + len(quiets)
    hist = "c10::stub_history_get" if n_legal <= SMALL else "c10::stub_history_zero"
    attrs = ["#[kani::proof]", f"#[kani::unwind({n_legal + 3})]", "#[kani::stub(std::time::Instant::now, c10::stub_now)]",
             f"#[kani::stub(crate::engine::search::tables::HistoryTable::get, {hist})]",
             "#[kani::stub(crate::chess::movegen::gen::generate_captures, c10::stub_gen_captures)]",
             "#[kani::stub(crate::chess::movegen::gen::generate_quiets, c10::stub_gen_quiets)]",
             "#[kani::stub(crate::engine::see::see, c10::stub_see)]"]
    arr = lambda xs, f=str: "[" + ", ".join(f(x) for x in xs) + "]"
    src = "\n".join(attrs) + (f"\npub fn {hn}() {{ let p = {bpos_literal(fen)}; c10::run(&p, {str(loud).lower()}, {str(use_hash).lower()}, "
                               f"&{arr(caps)}, &{arr(see_ok, lambda b: 'true' if b else 'false')}, &{arr(quiets)}); }}\n")
    return hn, src


def jobs(tier, seed):
    # placeholders; real instances are generated in finalize() once the move lists of this tree are known
    return []


def split_lists(data):
    caps, quiets = data["C10_CAPS"], data["C10_QUIETS"]
    out = []
    ci = qi = 0
    for _ in CORPUS:
        nc = caps[ci]; ci += 1
        c, s = [], []
        for _ in range(nc):
            c.append(caps[ci]); s.append(bool(caps[ci + 1])); ci += 2
        nq = quiets[qi]; qi += 1
        q = quiets[qi:qi + nq]; qi += nq
        out.append((c, s, q))
    return out


def finalize(jobs, data, tier, seed):
    lists = split_lists(data)
    rnd = random.Random(seed)
    names = [n for n, _ in CORPUS]
    if tier == "thorough":
        chosen = names
    else:
        rest = [n for n in names if n not in QUICK_ALWAYS]
        chosen = QUICK_ALWAYS + rnd.sample(rest, 1)
    only_names = os.environ.get("C10_POS")
    if only_names:
        chosen = only_names.split(",")
    js = []
    for (n, fen), (c, s, q) in zip(CORPUS, lists):
        if n not in chosen:
            continue
        for loud, use_hash in ((False, False), (False, True), (True, False)):
            hn, src = instance(n, fen, c, s, q, loud, use_hash)
            js.append(Job(hn, f"{'captures-only' if loud else 'full'} picker{' with hash move' if use_hash else ''} on '{fen}' ({len(c)} captures/promotions + {len(q)} quiets): "
                              f"all hash/killer/counter-move contents, history scores {'arbitrary' if len(c) + len(q) <= SMALL else 'zero'}", gen=src,
                          timeout=3000 if tier == "thorough" else 1500, mem_gb=20, checks="functional", witness=False,
                          # the 64-element inner arrays of the history / counter-move tables and the mailbox would otherwise be split into ~17,000 scalar symbols
                          # that every path merge has to walk (measured: 20 s per iteration of a trivial copy loop)
                          extra_cbmc=["--max-field-sensitivity-array-size", "16"],
                          params={"fen": fen, "captures": len(c), "quiets": len(q), "loud": loud, "hash_move": use_hash}))
    return js


def decode(job, vals):
    return None
