from vdriver import Job

ID = "C03"
LEVEL = "model_checking"
MAIN = "c03"
MODULES = ["geom", "pos", "stubs", "step", "c03"]
ACCESS = None
DUMP = ["Z_PIECE_SQUARE", "Z_CASTLING", "Z_EP", "Z_NO_EP", "Z_SIDE"]
PARALLEL = 16

META = {
    "functions_encoded": ["chess::zobrist::{hash, ZobristHash::{toggle_piece_on_square, toggle_castle_rights, set_en_passant, toggle_side_to_play}, "
                          "piece_on_square, castle_rights, en_passant, side_to_play}", "chess::game::Game::{make_move, undo_move, make_null_move, undo_null_move} and everything they call",
                          "component words: the 838 words produced by the real zobrist::init() of this tree in this run (native dump), loaded into the real statics"],
    "stubs": [],
    "bounds": ["delta harnesses: NO bound on material - any valid position, any carried key, any legal move",
               "direct 'key == hash(position)' harnesses and the single-feature lemma: hash() loops over the pieces, so material is bounded: quick <= 2 per "
               "officer kind and colour and <= 3 pawns; thorough <= 3 officers and <= 8 pawns"],
    "outside": ["global injectivity of the key on arbitrary position pairs (64-bit keys collide in principle; decided: single-feature differences change the key, "
                "components pairwise distinct and non-zero)"],
    "assumptions": ["legal moves = make-then-test oracle (C01)", "the native test build and Kani's build compile the same init() source"],
    "trusted_base": ["kani 0.68.0", "cbmc 6.11.0", "cadical", "z3 (distinctness of the dumped component words)"],
    "explanation": "One inductive step from an arbitrary valid state with key == hash(position); plus the XOR-delta form without material bound.",
}
MANIFEST = {
    "text": "Bounded model checking by one-step induction with the REAL component words: (a) from any valid position of bounded material with "
            "key == hash(position), after the real make_move / null move (any oracle-legal move) the carried key again equals the from-scratch "
            "hash, and take-backs restore it - so by induction the key depends on the position alone whatever the move order; (b) without any "
            "material bound, from any valid position and ANY carried key the key changes by exactly the XOR of the components of the features "
            "that changed; (c) positions differing in one feature (side, one castling right, ep target, one piece) have keys differing by that "
            "component, and a solver query on the dumped words shows all 838 components pairwise distinct and non-zero.",
    "note": "hash() loop bounds limit material in (a)/(c); injectivity on arbitrary pairs is not claimed (64-bit keys).",
    "design_ref": "DESIGN.md s.4 C03",
}


def inst(kind, k, pawns):
    name = f"c03_{kind}_k{k}p{pawns}"
    fn = {"make": "make_step", "null": "null_step", "hash_is_xor_sum": "hash_is_xor_sum"}[kind]
    un = max(k, pawns, 6) + 2
    return name, f"#[kani::proof]\n#[kani::unwind({un})]\npub fn {name}() {{ c03::{fn}({k}, {pawns}); }}\n"


def extra(data):
    """solver query on the constants produced by the real init(): all 838 component words pairwise distinct and non-zero"""
    import subprocess
    words = data["Z_PIECE_SQUARE"] + data["Z_CASTLING"] + data["Z_EP"] + data["Z_NO_EP"] + data["Z_SIDE"]
    smt = "(set-logic QF_BV)\n"
    names = []
    for i, w in enumerate(words):
        smt += f"(define-fun w{i} () (_ BitVec 64) #x{w:016x})\n"
        names.append(f"w{i}")
    smt += "(assert (not (and (distinct " + " ".join(names) + ") " + " ".join(f"(not (= {n} #x0000000000000000))" for n in names) + ")))\n(check-sat)\n"
    try:
        r = subprocess.run(["z3", "-in"], input=smt, capture_output=True, text=True, timeout=300)
        out = r.stdout.strip()
    except Exception as e:
        return [{"name": "c03_components_distinct", "status": "inconclusive", "detail": str(e)}]
    if "(error" in out or out not in ("sat", "unsat"):
        return [{"name": "c03_components_distinct", "status": "inconclusive", "detail": out[:200]}]
    if out == "unsat":
        return [{"name": "c03_components_distinct", "status": "verified", "detail": f"z3: {len(words)} component words pairwise distinct and non-zero (unsat of the negation)"}]
    seen = {}
    dup = None
    for i, w in enumerate(words):
        if w == 0 or w in seen:
            dup = (i, seen.get(w), w)
        seen[w] = i
    return [{"name": "c03_components_distinct", "status": "failed", "detail": f"component words not distinct/non-zero: {dup}", "case": {"dup": dup}}]


KINDS = ["pawn", "knight", "bishop", "rook", "queen", "king"]
PLACEMENTS = [
    "r3k2r/p1ppqpb1/bn2pnp1/3PN3/Pp2P3/2N2Q1p/1PPBBPPP/R3K2R w KQkq a3 0 1",
    "rnbqkbnr/ppp1p1pp/8/3pPp2/8/8/PPPP1PPP/RNBQKBNR w KQkq f6 0 3",
    "8/2p5/3p4/KP5r/1R3pPk/8/4P3/8 b - g3 0 1",
    "r3k2r/Pppp1ppp/1b3nbN/nP6/BBP1P3/q4N2/Pp1P2PP/R2Q1RK1 w kq - 0 1",
    # promoted material: game phase above its nominal maximum of 24 (4 rooks, 5 queens, 2 minors = 30)
    "r2qk2r/1Q3ppp/8/3b4/8/2N5/PPP1QPPP/R2QKQ1R w KQkq - 0 1",
]


def case_inst(fn, kind, side, unwind=None):
    kn = KINDS[kind] if kind < 6 else "null"
    name = f"c03_{fn}_{kn}_{'wb'[side]}"
    attrs = ["#[kani::proof]"] + ([f"#[kani::unwind({unwind})]"] if unwind else [])
    return name, "\n".join(attrs) + f"\npub fn {name}() {{ c03::{fn}({kind}, {side}); }}\n"


def jobs(tier, seed):
    import random
    rnd = random.Random(seed)
    k, pawns = (2, 4) if tier == "thorough" else (1, 2)
    t = 7200 if tier == "thorough" else 2400
    js = [
        Job("c03_lookup_injective", "the component look-up functions give distinct non-zero words for distinct features (real tables)", timeout=1200, mem_gb=12),
        Job("c03_delta_null", "any material, any key: null move changes the key by side + ep components; undo restores", timeout=t, mem_gb=16, checks="functional", witness=False),
    ]
    for kind in range(6):
        for side in (0, 1):
            n, src = case_inst("delta_make", kind, side)
            js.append(Job(n, f"any material, any key: make_move of a {KINDS[kind]} ({'white' if side == 0 else 'black'}) changes the key by exactly the XOR of the changed "
                             "components; undo restores", gen=src, timeout=t, mem_gb=20, checks="functional", witness=False,
                          params={"moving_kind": KINDS[kind], "white_to_move": side == 0}))
    # the oracle-only glue lemma takes 20+ min per moving kind; quick runs the null-move case, thorough all kinds
    for kind in (list(range(6)) + [7]) if tier == "thorough" else [7]:
        sides = (0, 1) if tier == "thorough" else (rnd.randrange(2),)
        for side in sides:
            n, src = case_inst("oracle_delta", kind, side, unwind=66)
            js.append(Job(n, f"oracle lemma: XOR-sum(after) == XOR-sum(before) ^ delta for {'a null move' if kind == 7 else 'any ' + KINDS[kind] + ' move'}, any material",
                          gen=src, timeout=t, mem_gb=20, checks="functional", witness=False))
    # quick complement: concrete placements (incl. all twelve piece kinds, home-square kings and rooks, pawns that just double-pushed), symbolic side/rights/ep
    from props.c10 import bpos_literal
    import re as _re
    for i, fen in enumerate(PLACEMENTS):
        lit = bpos_literal(fen)
        pcs = _re.search(r"pcs: (\[\[.*?\]\])", lit).group(1)
        name = f"c03_hash_on_placement_{i}"
        src = f"#[kani::proof]\n#[kani::unwind(66)]\npub fn {name}() {{ c03::hash_on_placement({pcs}); }}\n"
        js.append(Job(name, f"real hash() == XOR sum on the placement of '{fen.split()[0]}' with symbolic side, rights, en-passant target", gen=src, timeout=900, mem_gb=12,
                      checks="functional", witness=False, params={"placement": fen.split()[0]}))
    n, src = inst("hash_is_xor_sum", k, pawns)
    if tier == "thorough":  # > 15 min even at one officer per kind (symbolic-square look-ups into the 768-word table inside hash()'s loops)
      js.append(Job(n, f"real hash() == XOR sum of components, material <= {k} officers per kind and colour, <= {pawns} pawns", gen=src, timeout=t, mem_gb=24,
                    checks="functional", witness=False, params={"per_kind": k, "pawns": pawns}, unwindset={"xor_sum.": 66}))
    if tier == "thorough":
        for kind in ("make", "null"):
            n, src = inst(kind, 1, 2)
            js.append(Job(n, f"direct: key == hash(position) preserved by {kind}, material <= 1 officer per kind, 2 pawns", gen=src, timeout=t, mem_gb=30,
                          checks="functional", witness=False, params={"per_kind": 1, "pawns": 2}))
    return js


def decode(job, vals):
    return None
