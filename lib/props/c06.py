import os
from vdriver import Job

ID = "C06"
# not claimed: see NOT_CLAIMED_REASON; the one scalar kernel below is kept runnable (bin/check C06) but is not registered in MANIFEST.checks
CLAIMED = False
NOT_CLAIMED_REASON = ("the property is about text: fen::parse/fen::write are nom combinators, Vec, HashSet and format!; symbolic execution of fen::parse on ONE CONCRETE "
                      "27-byte FEN did not finish in 10 min and the board-field sub-parser with 2 free bytes not in 25 min (measured), so round trip, never-crash and "
                      "rank-width rejection cannot be encoded within reach; only the move-number arithmetic kernel is decidable, which does not carry the property "
                      "(DESIGN.md s.6)")
LEVEL = "other"
MAIN = "c06"
MODULES = ["geom", "stubs", "c06"]
ACCESS = None
DUMP = []
PARALLEL = 4

META = {
    "functions_encoded": ["chess::fen::fen_parser::plies_from_fullmove_number", "chess::game::Game::turn (arithmetic restated)"],
    "stubs": [],
    "bounds": ["all u32 move numbers, both sides"],
    "outside": ["fen::parse / fen::write on whole strings: nom combinators, Vec, HashSet, format! - symbolic execution of fen::parse on ONE CONCRETE 27-byte FEN does not finish within 10 "
                "minutes (measured), so the round-trip, the never-crash-on-any-string and the rank-width sentences are not encodable within reach of this technique"],
    "assumptions": [],
    "trusted_base": ["kani 0.68.0", "cbmc 6.11.0", "cadical"],
    "explanation": "Only the move-number arithmetic is decided; see not_applicable reasoning in DESIGN.md for the rest.",
}
MANIFEST = {
    "text": "Partial (kernel-level) claim, hence 'other': for EVERY u32 move number and both sides the solver shows the move-number -> ply-counter arithmetic of the "
            "reader does not panic and is the inverse of what the writer prints (Game::turn) on canonical numbers. The round trip of whole FEN strings, 'any string "
            "yields a position or an error' and the rank-width rejection are NOT claimed: the nom/Vec/HashSet/format! code of fen::parse and fen::write does not "
            "finish symbolic execution within reach (measured, see DESIGN.md).",
    "note": "Only plies_from_fullmove_number is decided; everything string-level is outside the claim.",
    "design_ref": "DESIGN.md s.4 C06",
}


def jobs(tier, seed):
    js = [Job("c06_plies_from_fullmove", "plies_from_fullmove_number for every u32 x side: no panic; inverse of turn()", timeout=300, min_covers=2)]
    if os.environ.get("C06_EXPERIMENT"):
        tpl = "8/8/8/8/8/8/8/K6k"
        src = ("#[kani::proof]\n#[kani::unwind(20)]\npub fn c06_board_field_exp() { c06::board_field(b\"%s\", [0, 2, 99]); }\n" % tpl)
        js.append(Job("c06_board_field_exp", "experiment", gen=src, timeout=1500, mem_gb=20, witness=False, min_covers=2))
    return js


def decode(job, vals):
    return {"any_values_le": [int.from_bytes(bytes(v), "little") for v in vals[:8]]}
