from vdriver import Job

ID = "C04"
LEVEL = "other"
MAIN = "c04"
MODULES = ["geom", "stubs", "c04"]
ACCESS = None
DUMP = []
PARALLEL = 8

META = {
    "functions_encoded": [
        "engine::search::aspiration::Window::{around, widen_down, widen_up, increase_window_widening_rate, clamp_alpha, clamp_beta}",
        "engine::transposition_table::TranspositionTable::{new_generation, get_entry_idx, get}",
        "engine::eval::Eval::{neg, mate_in, mated_in, with_mate_distance_from_position, with_mate_distance_from_root, add, sub, div}",
        "engine::search::tables::{HistoryTable::{new, add_bonus_for, get}, KillersTable::{new, get_0, get_1, try_push}, lmr_table::lmr_reduction}",
        "engine::search::negamax::DepthReduction::{reduce_less_if, value}", "engine::util::metrics::nodes_per_second", "engine::search::params::{REVERSE_FUTILITY_PRUNE_*, FUTILITY_PRUNE_MAX_MOVE_VALUE} with Eval::{sub, add, mul, neg}",
    ],
    "stubs": [],
    "bounds": ["aspiration: histories of up to 24 fail-low/fail-high widenings after Window::around (the width saturates long before; unwind 26)",
               "killers: plies < MAX_SEARCH_DEPTH_SIZE (255), the size the table is built for", "tt index: table lengths 1..4 (code is length-generic)"],
    "outside": ["termination of a whole search and legality of the returned move (needs the recursive search executed: one move "
                "generation on a near-empty board is 1.5 M SAT variables and CBMC unrolls recursion syntactically)",
                "inline arithmetic inside negamax/quiescence bodies (eval - margin*depth, plies + 1, depth - 1 - R): cannot be called in isolation",
                "HistoryTable::decay (a loop over 8192 cells; the harness c04_history_decay did not finish symbolic execution in 25 min and is not run)",
                "plies = 255 (negamax indexes killers with plies and computes plies + 1 without a guard; reaching it needs a >=128-ply line)"],
    "assumptions": ["a search iteration returns a score in [-32000, 32000]; a fail-low is a score <= alpha, a fail-high a score >= beta",
                    "Kani's debug-profile semantics (overflow-checks=on); release wrap-around is covered by asserting the mathematical result"],
    "trusted_base": ["kani 0.68.0", "cbmc 6.11.0", "cadical"],
    "explanation": "Kernel-level claim only: each harness executes one real arithmetic unit of the search path symbolically over its "
                   "whole input range with overflow, bounds and unwrap checks on. The sentence 'a search terminates and returns a legal "
                   "move' is outside the claim.",
}

MANIFEST = {
    "text": "Partial (kernel-level) claim, hence 'other': for the arithmetic units on the search path (aspiration window along any "
            "fail-low/fail-high history of up to 24 widenings, transposition-table generation counter, score negation / mate-distance "
            "adjustment, history and killer tables, LMR look-up and depth reduction, slot indexing) the solver shows for EVERY input in "
            "range that no overflow, out-of-range index or unwrap panic occurs and the mathematical result is the intended one. Whole-"
            "search termination and legality of the returned move are NOT claimed - they need the recursive search executed, which is "
            "out of reach for this technique.",
    "note": "Assumes iteration scores lie in [-32000, 32000]; checks are in Kani's debug semantics; plies <= 254.",
    "design_ref": "DESIGN.md s.4 C04",
}


def jobs(tier, seed):
    return [
        Job("c04_aspiration_history", "Window::around + any history of <=24 widen_down/widen_up steps: no overflow, alpha<beta, monotone", timeout=900),
        Job("c04_tt_new_generation", "new_generation from every generation value (256th search)", timeout=300),
        Job("c04_eval_ops", "Eval negation, mate_in/mated_in, mate-distance round trip for all scores x plies", timeout=300),
        Job("c04_history_bonus", "HistoryTable::add_bonus_for from any stored score in [0,max], any depth: clamped, no overflow", timeout=600),
        Job("c04_history_index", "HistoryTable::get / CountermoveTable::get with any 16-bit move: in range", timeout=600),
        Job("c04_nodes_per_second", "nodes_per_second for any node count and elapsed time (zero included): no panic", timeout=600),
        Job("c04_pruning_margins", "pruning-margin / null-window expressions of negamax.rs restated with the real operators and constants: no i16 overflow", timeout=300),
        Job("c04_killers", "KillersTable get/try_push for all plies < 255 and any two moves", timeout=600),
        Job("c04_lmr_and_reduction", "lmr_reduction + DepthReduction for every depth, move count", timeout=300),
        Job("c04_tt_index", "get_entry_idx/get on empty tables of 1..4 slots, any key", timeout=300),
    ]


def decode(job, vals):
    return {"any_values": [int.from_bytes(bytes(v), "little") for v in vals[:8]]}
