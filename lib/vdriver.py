#!/usr/bin/env python3
"""Driver shared by all checks: overlay of /repo's working tree -> Kani codegen -> CBMC
per harness (parallel, capped) -> classification -> native replay of counterexamples ->
evidence file.  See /verif/DESIGN.md section 3.

Nothing here knows chess; per-property knowledge lives in lib/props/<ID>.py.
"""
import concurrent.futures
import hashlib
import json
import os
import re
import resource
import shutil
import subprocess
import sys
import threading
import time
from pathlib import Path

VERIF = Path(__file__).resolve().parents[1]
REPO = Path(os.environ.get("VERIF_REPO", "/repo"))
SCRATCH_ROOT = Path(os.environ.get("VERIF_SCRATCH", "/var/tmp/verif-scratch"))
KANI_HOME = Path(os.environ.get("KANI_HOME_DIR", str(Path.home() / ".kani" / "kani-0.68.0")))
KANI_LIB_C = KANI_HOME / "library" / "kani" / "kani_lib.c"
CACHE = VERIF / ".cache"
NCPU = os.cpu_count() or 4

CARGO_FEATURES = ["--no-default-features", "--features", "release"]

BASE_ENV = dict(os.environ)
BASE_ENV["CARGO_NET_OFFLINE"] = "true"
BASE_ENV.pop("RUSTFLAGS", None)


def log(*a):
    print("[verif]", *a, file=sys.stderr, flush=True)


class Inconclusive(Exception):
    """machinery could not decide (build failure of harness against the tree, missing anchor ...)"""


# --------------------------------------------------------------------------------------
# job description
# --------------------------------------------------------------------------------------
class Job:
    def __init__(self, harness, desc, *, module=None, unwind=None, unwindset=None, checks="all",
                 timeout=600, mem_gb=6, params=None, witness=True, gen=None, extra_cbmc=None,
                 min_covers=1, weight_gb=None):
        self.harness = harness          # function name of the #[kani::proof]
        self.module = module            # rust module under verif:: (defaults to property's main module)
        self.desc = desc
        self.unwind = unwind            # global --unwind (None: harness attribute or none)
        self.unwindset = unwindset or {}  # {substring of loop id: bound}
        self.checks = checks            # "all" | "functional" (no pointer/bounds/div0 instrumentation)
        self.timeout = timeout
        self.mem_gb = mem_gb
        self.params = params or {}
        self.witness = witness          # extract a cover witness (needs --trace on covers)
        self.gen = gen                  # rust source text of a generated harness instance (or None)
        self.extra_cbmc = extra_cbmc or []
        self.min_covers = min_covers
        # expected resident memory, used for admission control (mem_gb is the hard cap)
        self.weight_gb = weight_gb if weight_gb is not None else max(1.0, mem_gb / 4.0)
        # results
        self.result = None


class JobResult:
    def __init__(self):
        self.status = "inconclusive"    # verified | failed | inconclusive
        self.reason = ""
        self.props_total = 0
        self.props_ok = 0
        self.failed = []                # [(property id, class, description, location)]
        self.unwind_failed = []
        self.covers_sat = 0
        self.covers_total = 0
        self.vars = 0
        self.clauses = 0
        self.solver_s = 0.0
        self.wall_s = 0.0
        self.witness = None
        self.loops = {}
        self.log = None
        self.replay = None


# --------------------------------------------------------------------------------------
# overlay
# --------------------------------------------------------------------------------------
def sh(cmd, cwd=None, env=None, timeout=None, logf=None, mem_gb=None):
    def lim():
        if mem_gb:
            b = int(mem_gb * (1 << 30))
            resource.setrlimit(resource.RLIMIT_AS, (b, b))
        os.setsid()
    t0 = time.time()
    out = open(logf, "wb") if logf else subprocess.PIPE
    try:
        p = subprocess.Popen(cmd, cwd=cwd, env=env or BASE_ENV, stdout=out, stderr=subprocess.STDOUT,
                             preexec_fn=lim)
        try:
            so, _ = p.communicate(timeout=timeout)
            rc = p.returncode
        except subprocess.TimeoutExpired:
            try:
                os.killpg(p.pid, 9)
            except ProcessLookupError:
                pass
            p.wait()
            so, rc = b"", -999
    finally:
        if logf:
            out.close()
    return rc, (so.decode("utf8", "replace") if so else ""), time.time() - t0


def tree_hash(root: Path):
    h = hashlib.sha256()
    files = sorted(p for p in (root / "src").rglob("*") if p.is_file())
    for extra in ("Cargo.toml", "Cargo.lock", "build.rs"):
        if (root / extra).exists():
            files.append(root / extra)
    for f in files:
        h.update(str(f.relative_to(root)).encode())
        h.update(b"\0")
        h.update(f.read_bytes())
        h.update(b"\0")
    return h.hexdigest()[:24]


DUMP_TEST = r'''
// ---- appended by /verif (overlay only, never committed to /repo) ----
#[cfg(test)]
mod verif_dump {
    fn j(name: &str, v: &[u64], out: &mut String) {
        out.push_str(&format!("\"{}\":[{}],\n", name, v.iter().map(|x| x.to_string()).collect::<Vec<_>>().join(",")));
    }
    #[test]
    fn verif_dump_tables() {
        crate::init();
        let mut out = String::from("{\n");
        __DUMP_BODY__
        out.push_str("\"_end\":[]}\n");
        std::fs::write(std::env::var("VERIF_DUMP_OUT").unwrap(), out).unwrap();
    }
}
'''


class Overlay:
    def __init__(self, prop_id, keep=False):
        self.prop_id = prop_id
        self.root = SCRATCH_ROOT / f"{prop_id}-{os.getpid()}"
        self.tree = self.root / "tree"
        self.keep = keep or bool(os.environ.get("VERIF_KEEP"))
        self.access_files = []

    def create(self, modules, dump_body, gen_src, access=None):
        if self.root.exists():
            shutil.rmtree(self.root, ignore_errors=True)
        # scratch copies left behind by runs that were killed (their process is gone) are removed: disk is limited
        if SCRATCH_ROOT.exists() and not os.environ.get("VERIF_KEEP"):
            for d in SCRATCH_ROOT.iterdir():
                pid = d.name.rsplit("-", 1)[-1]
                if pid.isdigit() and not Path(f"/proc/{pid}").exists():
                    shutil.rmtree(d, ignore_errors=True)
        self.tree.mkdir(parents=True)
        rc, so, _ = sh(["rsync", "-a", "--exclude", "target", "--exclude", ".git", f"{REPO}/", f"{self.tree}/"])
        if rc != 0:
            raise Inconclusive(f"rsync of {REPO} failed: {so[-400:]}")
        self.hash = tree_hash(self.tree)
        # accessors
        for acc in sorted((VERIF / "harness" / "access").glob("*.rs")):
            if access is not None and acc.stem not in access:
                continue
            rel = acc.stem.replace("__", "/") + ".rs"
            target = self.tree / rel
            if not target.exists():
                raise Inconclusive(f"anchor file {rel} missing from the tree (accessor cannot be appended)")
            with open(target, "a") as f:
                f.write(acc.read_text())
            self.access_files.append(rel)
        # harness sources
        vdir = self.tree / "src" / "verif"
        vdir.mkdir()
        names = []
        for m in modules:
            src = VERIF / "harness" / "verif" / f"{m}.rs"
            shutil.copy(src, vdir / f"{m}.rs")
            names.append(m)
        modrs = "#![allow(dead_code, unused_imports, unused_variables, unused_mut, clippy::all, clippy::pedantic, clippy::nursery, static_mut_refs)]\n"
        for m in names:
            modrs += f"pub mod {m};\n"
        modrs += "pub mod dump;\npub mod gen;\n"
        (vdir / "mod.rs").write_text(modrs)
        (vdir / "gen.rs").write_text("// generated harness instances\n#![allow(unused_imports)]\nuse super::*;\n" + (gen_src or ""))
        (vdir / "dump.rs").write_text("// generated: constants dumped from the real init() of this tree\n")
        main = self.tree / "src" / "main.rs"
        txt = main.read_text()
        txt = '#![cfg_attr(kani, recursion_limit = "512")]\n' + txt
        txt += '\n// ---- appended by /verif (overlay only) ----\n#[cfg(kani)]\n#[path = "verif/mod.rs"]\nmod verif;\n'
        txt += DUMP_TEST.replace("__DUMP_BODY__", dump_body or "")
        main.write_text(txt)
        # offline cargo config
        cdir = self.tree / ".cargo"
        cdir.mkdir(exist_ok=True)
        with open(cdir / "config.toml", "a") as f:
            f.write("\n[net]\noffline = true\n")

    def cleanup(self):
        if not self.keep:
            shutil.rmtree(self.root, ignore_errors=True)


# --------------------------------------------------------------------------------------
# native dump of start-up tables
# --------------------------------------------------------------------------------------
def native_dump(ov: Overlay, need: bool):
    """run the real init() natively (same tree, same features) and return the dumped tables"""
    if not need:
        return {}
    CACHE.mkdir(exist_ok=True)
    body_hash = hashlib.sha256((ov.tree / "src" / "main.rs").read_bytes()).hexdigest()[:12]
    cached = CACHE / f"dump-{ov.hash}-{body_hash}.json"
    if cached.exists() and not os.environ.get("VERIF_NO_DUMP_CACHE"):
        try:
            return json.loads(cached.read_text())
        except Exception:
            pass
    out = ov.root / "dump.json"
    env = dict(BASE_ENV)
    env["VERIF_DUMP_OUT"] = str(out)
    env["CARGO_TARGET_DIR"] = str(ov.root / "target-native")
    rc, so, dt = sh(["cargo", "test", "--offline"] + CARGO_FEATURES + ["verif_dump_tables", "--", "--nocapture"],
                    cwd=ov.tree, env=env, timeout=900)
    if rc != 0 or not out.exists():
        raise Inconclusive("native dump of start-up tables failed:\n" + so[-3000:])
    log(f"native dump built and run in {dt:.0f}s")
    data = json.loads(out.read_text())
    try:
        cached.write_text(json.dumps(data))
    except Exception:
        pass
    shutil.rmtree(ov.root / "target-native", ignore_errors=True)
    return data


# --------------------------------------------------------------------------------------
# kani codegen + direct cbmc pipeline
# --------------------------------------------------------------------------------------
def kani_codegen(ov: Overlay, harness_names):
    env = dict(BASE_ENV)
    cmd = ["cargo", "kani", "--only-codegen"] + CARGO_FEATURES + ["-Z", "stubbing", "-Z", "unstable-options",
                                                                  "--no-assertion-reach-checks"]
    for h in harness_names:
        cmd += ["--harness", h]
    rc, so, dt = sh(cmd, cwd=ov.tree, env=env, timeout=3600, logf=str(ov.root / "codegen.log"))
    txt = (ov.root / "codegen.log").read_text(errors="replace")
    if rc != 0:
        raise Inconclusive("kani codegen failed (harness does not compile against this tree?):\n" + error_blocks(txt))
    log(f"kani codegen of {len(harness_names)} harness(es) in {dt:.0f}s")
    metas = list((ov.tree / "target" / "kani").rglob("*.kani-metadata.json"))
    table = {}
    for m in metas:
        md = json.loads(m.read_text())
        for h in md.get("proof_harnesses", []):
            table[h["pretty_name"]] = h
    return table, dt


def error_blocks(txt, limit=6000):
    lines = txt.splitlines()
    out = []
    i = 0
    while i < len(lines):
        if lines[i].startswith("error"):
            out.extend(lines[i:i + 14])
            out.append("")
            i += 14
        else:
            i += 1
    res = "\n".join(out)
    return res[:limit] if res.strip() else txt[-limit:]


CBMC_BASE = ["--no-malloc-may-fail", "--no-undefined-shift-check", "--no-signed-overflow-check", "--nan-check",
             "--no-self-loops-to-assumptions", "--no-pointer-primitive-check", "--object-bits", "16",
             "--sat-solver", "cadical", "--slice-formula", "--unwinding-assertions"]
CBMC_FUNCTIONAL = ["--no-bounds-check", "--no-pointer-check", "--no-div-by-zero-check"]

MAX_REPLAYS = int(os.environ.get("VERIF_MAX_REPLAYS", "2"))
# "NaN": CBMC's C-style check that a float operation produced NaN - not an error in Rust (casts saturate, comparisons are defined);
# code that cannot take a NaN (Duration::from_secs_f32) panics by itself, which is an ordinary assertion
IGNORED_CLASSES = {"reachability_check", "NaN"}
INCONCLUSIVE_CLASSES = {"unwind", "unsupported_construct", "sanity_check", "internal", "unsupported_struct", "unsound_experimental"}


def prep_goto(meta, workdir: Path):
    sym = meta["goto_file"]
    out = str(workdir / (Path(sym).name.replace(".symtab.out", "") + ".goto"))
    steps = [
        ["goto-cc", sym, str(KANI_LIB_C), "-o", out],
        ["goto-cc", out, "--function", meta["mangled_name"], "-o", out],
        ["goto-instrument", "--add-library", "--no-malloc-may-fail", out, out],
        ["goto-instrument", "--generate-function-body-options", "assert-false-assume-false",
         "--generate-function-body", ".*", "--drop-unused-functions", out, out],
        ["goto-instrument", "--ensure-one-backedge-per-target", out, out],
    ]
    for s in steps:
        rc, so, _ = sh(s, timeout=1800)
        if rc != 0:
            raise Inconclusive(f"{s[0]} failed on {Path(sym).name}: {so[-1500:]}")
    return out


def show_loops(goto):
    rc, so, _ = sh(["cbmc", "--show-loops", goto], timeout=600)
    loops = re.findall(r"^Loop (\S+):", so, flags=re.M)
    return loops


def cbmc_args(job: Job, meta, loops):
    args = list(CBMC_BASE)
    if job.checks == "functional":
        args += CBMC_FUNCTIONAL
    unwind = job.unwind if job.unwind is not None else meta["attributes"].get("unwind_value")
    if unwind is not None:
        args += ["--unwind", str(unwind)]
    us = []
    bounds = {}
    for lp in loops:
        for pat, b in job.unwindset.items():
            if pat in lp:
                bounds[lp] = b
    for lp, b in bounds.items():
        us.append(f"{lp}:{b}")
    if us:
        args += ["--unwindset", ",".join(us)]
    args += job.extra_cbmc
    return args, bounds, unwind


def parse_cbmc_json(path):
    """tolerant parse of cbmc --json-ui output (possibly truncated)"""
    txt = Path(path).read_text(errors="replace")
    try:
        return json.loads(txt), True
    except Exception:
        pass
    # truncated: cut at the last complete top-level element
    idx = txt.rfind("\n  },")
    if idx > 0:
        try:
            return json.loads(txt[: idx + 4] + "\n]"), False
        except Exception:
            pass
    return [], False


def prop_class(pid):
    # "<function>.<class>.<n>"
    parts = pid.rsplit(".", 2)
    return parts[1] if len(parts) == 3 else "unknown"


def bytes_from_trace(trace):
    """same extraction Kani's concrete playback performs: return values of kani::any_raw_*"""
    vals = []
    for st in trace:
        if st.get("stepType") != "assignment":
            continue
        lhs = st.get("lhs", "")
        fn = (st.get("sourceLocation") or {}).get("function", "")
        if not lhs.startswith("goto_symex$$return_value"):
            continue
        if not (fn.startswith("kani::any_raw_internal") or fn.startswith("kani::any_raw_array") or fn.startswith("kani::any_raw_")):
            continue
        v = st.get("value", {})
        b = collect_binary(v)
        if b is None:
            continue
        by = [int(b[i:i + 8], 2) for i in range(0, len(b), 8)]
        by.reverse()  # little endian
        vals.append(by)
    return vals


def collect_binary(v):
    if "binary" in v:
        return v["binary"]
    if "members" in v:  # struct
        out = ""
        for m in reversed(v["members"]):
            c = collect_binary(m.get("value", {}))
            if c is None:
                return None
            out += c
        return out
    if "elements" in v:  # array
        out = ""
        for m in reversed(v["elements"]):
            c = collect_binary(m.get("value", {}))
            if c is None:
                return None
            out += c
        return out
    return None


def run_job(job: Job, meta, workdir: Path):
    res = JobResult()
    job.result = res
    t0 = time.time()
    try:
        goto = prep_goto(meta, workdir)
        # loop names are only needed to resolve per-loop bounds (cbmc --show-loops re-processes the whole program: minutes on large harnesses)
        loops = show_loops(goto) if (job.unwindset or os.environ.get("VERIF_SHOW_LOOPS")) else []
        if os.environ.get("VERIF_SHOW_LOOPS"):
            (workdir / f"{job.harness}.loops.txt").write_text("\n".join(loops))
        args, bounds, unwind = cbmc_args(job, meta, loops)
        res.loops = {"count": len(loops), "unwind_default": unwind, "unwindset": bounds}
        outp = workdir / f"{job.harness}.cbmc.json"
        res.log = str(outp)
        cmd = ["cbmc"] + args + [goto, "--verbosity", "9", "--json-ui"]
        if job.witness:
            cmd += ["--trace"]
        rc, _, dt = sh(cmd, timeout=job.timeout, logf=str(outp), mem_gb=job.mem_gb)
        data, complete = parse_cbmc_json(outp)
        for m in data:
            t = m.get("messageText", "") if isinstance(m, dict) else ""
            mm = re.search(r"(\d+) variables, (\d+) clauses", t)
            if mm:
                res.vars = max(res.vars, int(mm.group(1)))
                res.clauses = max(res.clauses, int(mm.group(2)))
            mm = re.search(r"Runtime Solver: ([0-9.e+-]+)s", t)
            if mm:
                res.solver_s += float(mm.group(1))
        results = None
        for m in data:
            if isinstance(m, dict) and "result" in m:
                results = m["result"]
        if rc == -999:
            res.status, res.reason = "inconclusive", f"time cap {job.timeout}s reached"
            return res
        if results is None:
            tail = Path(outp).read_text(errors="replace")[-600:]
            oom = "out of memory" in tail.lower() or "bad_alloc" in tail or rc in (-6, -9, 134, 137)
            res.status = "inconclusive"
            res.reason = ("memory cap %s GB reached" % job.mem_gb) if oom else f"cbmc ended without results (rc={rc}): {tail[-300:]}"
            return res
        cover_witness = None
        for r in results:
            pid = r["property"]
            cls = prop_class(pid)
            st = r["status"]
            if cls in IGNORED_CLASSES:
                continue
            if job.checks == "functional" and (cls == "precondition_instance" or pid.startswith(("__rust_dealloc.", "__rust_alloc.", "__rust_realloc.", "__rust_alloc_zeroed."))):
                # functional harnesses run without pointer instrumentation; the allocator shims' own self-checks (kani_lib.c) then see
                # unconstrained pointer metadata on Vec drops and are not meaningful - memory safety is not what these harnesses decide
                continue
            if cls == "cover":
                res.covers_total += 1
                if st == "FAILURE":  # negated cover failed == cover satisfied
                    res.covers_sat += 1
                    if cover_witness is None and r.get("trace"):
                        cover_witness = bytes_from_trace(r["trace"])
                continue
            res.props_total += 1
            if st == "SUCCESS":
                res.props_ok += 1
            elif cls in INCONCLUSIVE_CLASSES:
                res.unwind_failed.append((pid, cls, r.get("description", "")))
            else:
                loc = r.get("sourceLocation") or {}
                res.failed.append((pid, cls, r.get("description", ""), f"{loc.get('file','?')}:{loc.get('line','?')}"))
        res.witness = cover_witness
        if res.failed:
            res.status = "failed"
            res.reason = "; ".join(f"{p} [{d}]" for p, c, d, l in res.failed[:3])
        elif res.unwind_failed:
            res.status = "inconclusive"
            res.reason = "bound too small or unsupported construct: " + "; ".join(f"{p}" for p, c, d in res.unwind_failed[:3])
        elif res.covers_sat < job.min_covers:
            res.status = "inconclusive"
            res.reason = f"vacuity witness not satisfied ({res.covers_sat}/{res.covers_total} covers) - harness is vacuous"
        else:
            res.status = "verified"
        return res
    except Inconclusive as e:
        res.status, res.reason = "inconclusive", str(e)
        return res
    finally:
        res.wall_s = time.time() - t0


def trace_for(job: Job, meta, workdir: Path, pid, sliced=False):
    """second, narrowed run: counterexample trace for one failed property.
    sliced=True keeps --slice-formula (fast, but nondet values the property does not depend on may be missing from the trace: the
    replay then stops at a failing kani::assume or runs out of values, which playback() reports as a machinery failure and the
    caller falls back to the unsliced run - what Kani's own concrete playback does)"""
    goto = str(workdir / (Path(meta["goto_file"]).name.replace(".symtab.out", "") + ".goto"))
    loops = show_loops(goto) if job.unwindset else []
    args, _, _ = cbmc_args(job, meta, loops)
    # like Kani's concrete playback: no formula slicing, so that every nondet value shows up in the trace
    if not sliced:
        args = [a for a in args if a != "--slice-formula"]
    outp = workdir / f"{job.harness}.trace{'-sliced' if sliced else ''}.json"
    cmd = ["cbmc"] + args + [goto, "--json-ui", "--trace", "--property", pid]
    rc, _, _ = sh(cmd, timeout=max(job.timeout, 600) * 2, logf=str(outp), mem_gb=job.mem_gb * 2)
    data, _ = parse_cbmc_json(outp)
    for m in data:
        if isinstance(m, dict) and "result" in m:
            for r in m["result"]:
                if r["property"] == pid and r.get("trace"):
                    return bytes_from_trace(r["trace"])
    return None


# --------------------------------------------------------------------------------------
# native replay through Kani's concrete playback
# --------------------------------------------------------------------------------------
def playback(ov: Overlay, module, harness, vals, release=False, tag="x"):
    """run the harness body natively (no stubs, real init) on the solver's values, the way
    `cargo kani playback` does, but with an explicit profile.
    returns (reproduced: bool|None, case: dict|None, output tail)"""
    vdir = ov.tree / "src" / "verif"
    test_name = f"verif_replay_{harness}_{tag}"
    vec = ", ".join("vec![" + ", ".join(str(b) for b in v) + "]" for v in vals)
    # the engine's start-up tables are filled exactly as the real binary does (main() calls init()) before the harness body runs natively
    src = (f"\n#[cfg(test)]\n#[test]\nfn {test_name}() {{\n    crate::init();\n    let concrete_vals: Vec<Vec<u8>> = vec![{vec}];\n"
           f"    kani::concrete_playback_run(concrete_vals, {harness});\n}}\n")
    mf = vdir / f"{module}.rs"
    existing = mf.read_text()
    if test_name not in existing:
        mf.write_text(existing + src)
    pb = KANI_HOME / "playback"
    flags = (["-Coverflow-checks=on"] if not release else []) + [
        "-Zunstable-options", "-Ztrim-diagnostic-paths=no", "-Zhuman_readable_cgu_names", "-Zalways-encode-mir",
        "--cfg=kani", "-Zcrate-attr=feature(register_tool)", "-Zcrate-attr=register_tool(kanitool)",
        "--force-warn", "unstable_features", "--sysroot", str(pb), "-L", str(pb / "lib"),
        "--extern", "force:kani", "--extern", f"noprelude,nounused:std={pb}/lib/libstd.rlib", "-Awarnings"]
    env = dict(BASE_ENV)
    env["CARGO_ENCODED_RUSTFLAGS"] = "\x1f".join(flags)
    env["RUSTC"] = str(KANI_HOME / "bin" / "kani-compiler")
    env["CARGO_TERM_PROGRESS_WHEN"] = "never"
    env["CARGO_TARGET_DIR"] = str(ov.root / ("target-playback-rel" if release else "target-playback"))
    env["RUST_BACKTRACE"] = "0"
    # the crate's release profile asks for fat LTO, which the playback std rlibs cannot take part in (no bitcode)
    env["CARGO_PROFILE_RELEASE_LTO"] = "false"
    cmd = [str(KANI_HOME / "toolchain" / "bin" / "cargo"), "test"] + (["--release"] if release else []) + \
        ["--no-default-features", "--features=release", "--target", "x86_64-unknown-linux-gnu", "-Zhost-config",
         "-Ztarget-applies-to-host", '--config=host.rustflags=["--cfg=kani_host"]', "--",
         f"verif::{module}::{test_name}", "--exact", "--nocapture"]
    rc, so, dt = sh(cmd, cwd=ov.tree, env=env, timeout=2400)
    case = None
    for line in so.splitlines():
        k = line.find("REPLAY-CASE ")
        if k >= 0:
            try:
                case = json.loads(line[k + len("REPLAY-CASE "):])
            except Exception:
                case = {"raw": line[k:]}
    if "Not enough det vals found" in so or "concrete_playback.rs" in so or "kani::assume` should always hold" in so:
        return None, case, "replay machinery: the extracted value list does not match the harness's kani::any() calls\n" + so[-1500:]
    ran = re.search(r"test result: (ok|FAILED)\. (\d+) passed; (\d+) failed", so)
    if not ran or (int(ran.group(2)) + int(ran.group(3))) == 0:
        return None, case, so[-3000:]
    return int(ran.group(3)) > 0, case, so[-3000:]


# --------------------------------------------------------------------------------------
# known findings
# --------------------------------------------------------------------------------------
def load_known(prop_id):
    p = VERIF / "known_findings.jsonl"
    known, fixed = [], []
    if p.exists():
        for line in p.read_text().splitlines():
            line = line.strip()
            if not line or line.startswith("#"):
                continue
            try:
                e = json.loads(line)
            except Exception:
                continue
            if e.get("property") != prop_id:
                continue
            (fixed if e.get("kind") == "fixed" else known).append(e)
    return known, fixed


def known_matches(entry, harness, case, failed):
    """an entry identifies ONE specific failing role: harness regexp + required key/values of the decoded case
    (+ optionally a regexp on the failed check's description)"""
    if "harness" in entry and not re.search(entry["harness"], harness):
        return False
    if "check" in entry and not any(re.search(entry["check"], f[2]) for f in failed):
        return False
    want = entry.get("case", {})
    if want and not case:
        return False
    for k, v in want.items():
        if str(case.get(k)) != str(v):
            return False
    return True


# --------------------------------------------------------------------------------------
# one property run
# --------------------------------------------------------------------------------------
def run_property(prop, tier, seed):
    t0 = time.time()
    pid = prop.ID
    evidence_path = VERIF / "evidence" / f"{pid}.json"
    (VERIF / "evidence").mkdir(exist_ok=True)
    (VERIF / "replays").mkdir(exist_ok=True)
    jobs = prop.jobs(tier, seed)
    gen_src = "\n".join(j.gen for j in jobs if j.gen)
    only = os.environ.get("VERIF_ONLY")
    if only:
        jobs = [j for j in jobs if re.search(only, j.harness)]
    ov = Overlay(pid)
    violations, known_hits, nonrepro, notes = [], [], [], []
    codegen_s = 0.0
    fatal = None
    try:
        ov.create(prop.MODULES, dump_body_all() + getattr(prop, "DUMP_EXTRA_BODY", ""), gen_src, getattr(prop, "ACCESS", None))
        data = native_dump(ov, bool(getattr(prop, "DUMP", [])) or hasattr(prop, "DUMP_EXTRA_BODY"))
        (ov.tree / "src" / "verif" / "dump.rs").write_text(dump_rs(data, getattr(prop, "DUMP", [])))
        if hasattr(prop, "finalize"):
            # jobs whose generated source / bounds depend on values computed natively from this tree
            jobs = prop.finalize(jobs, data, tier, seed)
            if only:
                jobs = [j for j in jobs if re.search(only, j.harness)]
            gen_src = "\n".join(j.gen for j in jobs if j.gen)
            (ov.tree / "src" / "verif" / "gen.rs").write_text("// generated harness instances\n#![allow(unused_imports)]\nuse super::*;\n" + gen_src)
        extra_results = prop.extra(data) if hasattr(prop, "extra") else []
        for er in extra_results:
            log(f"side query {er['name']}: {er['status']} {er.get('detail','')[:200]}")
            if er["status"] == "failed":
                rpath = VERIF / "replays" / f"{pid}-{er['name']}.json"
                rpath.write_text(json.dumps({"property_id": pid, "side_query": er}, indent=1))
                violations.append(({"harness": er["name"], "description": er.get("detail", ""), "case": er.get("case")}, rpath))
        notes.extend(f"side query {er['name']}: {er['status']} - {er.get('detail','')}" for er in extra_results)
        names = []
        for j in jobs:
            j.module = j.module or ("gen" if j.gen else prop.MAIN)
            names.append(f"verif::{j.module}::{j.harness}")
        table, codegen_s = kani_codegen(ov, names)
        work = ov.root / "work"
        work.mkdir(exist_ok=True)
        missing = [n for n in names if n not in table]
        if missing:
            raise Inconclusive(f"harnesses not produced by codegen: {missing[:5]}")
        par = int(os.environ.get("VERIF_JOBS", getattr(prop, "PARALLEL", NCPU)))
        # longest first
        order = sorted(range(len(jobs)), key=lambda i: -jobs[i].timeout)
        # admission control: the sum of the memory caps of running jobs stays within the budget (no swap on this machine)
        budget = float(os.environ.get("VERIF_MEM_GB", "52"))
        lock = threading.Condition()
        used = [0.0]

        def admitted(job, meta):
            need = min(job.weight_gb, budget)
            with lock:
                while used[0] + need > budget:
                    lock.wait()
                used[0] += need
            try:
                return run_job(job, meta, work)
            finally:
                with lock:
                    used[0] -= need
                    lock.notify_all()

        with concurrent.futures.ThreadPoolExecutor(max_workers=par) as ex:
            futs = {ex.submit(admitted, jobs[i], table[names[i]]): i for i in order}
            for f in concurrent.futures.as_completed(futs):
                i = futs[f]
                r = jobs[i].result
                log(f"{jobs[i].harness}: {r.status} ({r.wall_s:.0f}s, {r.vars} vars, {r.clauses} clauses) {r.reason[:200]}")
        # counterexamples -> native replay
        known, fixed = load_known(pid)
        for i, j in enumerate(jobs):
            r = j.result
            if r.status != "failed":
                continue
            if len(violations) >= MAX_REPLAYS:
                # the property is already shown violated by natively reproduced counterexamples; further failing
                # harnesses are listed in the evidence but not replayed (each replay is a solver run plus two native builds)
                notes.append(f"{j.harness}: failed ({r.reason[:160]}); not replayed, {len(violations)} violation(s) already reproduced")
                continue
            seen_desc = set()
            reproduced_any = False
            for (ppid, cls, desc, loc) in r.failed[:4]:
                if desc in seen_desc:
                    continue
                seen_desc.add(desc)
                rep_dev = None
                for sliced in (True, False):
                    vals = trace_for(j, table[names[i]], work, ppid, sliced=sliced)
                    if vals is None:
                        continue
                    tag = hashlib.sha256(json.dumps(vals).encode()).hexdigest()[:10]
                    rep_dev, case, tail = playback(ov, j.module, j.harness, vals, release=False, tag=tag)
                    if rep_dev is True or (rep_dev is not None and not sliced):
                        break
                    # sliced trace: value list did not fit the harness, or the shifted values did not fail natively: take the full trace
                if vals is None:
                    notes.append(f"{j.harness}: no trace obtained for {ppid}")
                    continue
                rep_rel = None
                if not rep_dev:
                    rep_rel, case2, tail2 = playback(ov, j.module, j.harness, vals, release=True, tag=tag)
                    case = case or case2
                    tail = tail + "\n--- release ---\n" + tail2
                rec = {
                    "property_id": pid, "harness": j.harness, "module": j.module, "failed_check": ppid,
                    "description": desc, "location": loc, "values": vals, "case": case,
                    "reproduced_dev": rep_dev, "reproduced_release": rep_rel, "tree_hash": ov.hash,
                    "gen": j.gen, "output_tail": tail[-1500:],
                }
                rpath = VERIF / "replays" / f"{pid}-{j.harness}-{tag}.json"
                if rep_dev or rep_rel:
                    reproduced_any = True
                    hit = None
                    for e in known:
                        if known_matches(e, j.harness, case or {}, [(ppid, cls, desc, loc)]):
                            hit = e
                    if hit:
                        known_hits.append((hit, rec))
                    else:
                        rpath.write_text(json.dumps(rec, indent=1))
                        violations.append((rec, rpath))
                    break
                else:
                    nonrepro.append(rec)
                    log(f"non-reproducing counterexample for {ppid}; playback output tail:\n{tail[-2500:]}")
            if r.failed and not reproduced_any and not any(n.get("harness") == j.harness for n in nonrepro):
                nonrepro.append({"harness": j.harness, "failed_check": r.failed[0][0], "description": r.failed[0][2], "note": "no replay possible"})
    except Inconclusive as e:
        fatal = str(e)
    finally:
        wall = time.time() - t0
        ev = build_evidence(prop, tier, seed, jobs, violations, known_hits, nonrepro, notes, fatal, wall, codegen_s, ov)
        evidence_path.write_text(json.dumps(ev, indent=1))
        ov.cleanup()

    # ---- report -------------------------------------------------------------------------
    for hit, rec in known_hits:
        print(f"KNOWN-FINDING: property={pid} {hit.get('what','')} (harness {rec['harness']}, case {json.dumps(rec.get('case'))})")
    for j in jobs:
        r = j.result
        if r and r.status == "inconclusive":
            print(f"INCONCLUSIVE property={pid} harness={j.harness}: {r.reason[:300]}")
    for rec, rpath in violations:
        print(f"VIOLATION property={pid} replay={rpath}")
        print(f"  harness={rec['harness']} check={rec['description']} case={json.dumps(rec.get('case'))}")
    nver = sum(1 for j in jobs if j.result and j.result.status == "verified")
    print(f"SUMMARY property={pid} tier={tier} harnesses={len(jobs)} verified={nver} "
          f"violations={len(violations)} known={len(known_hits)} nonreproducing={len(nonrepro)} wall={wall:.0f}s")
    if violations:
        return 1
    if fatal:
        print(f"INCONCLUSIVE property={pid}: {fatal[:3000]}")
        return 2
    if nonrepro:
        for n in nonrepro:
            print(f"NON-REPRODUCING counterexample property={pid} harness={n.get('harness')} check={n.get('description')} "
                  f"(encoding or stub fault, not reported as a violation)")
        return 2
    if nver == 0:
        return 2
    return 0


def build_evidence(prop, tier, seed, jobs, violations, known_hits, nonrepro, notes, fatal, wall, codegen_s, ov):
    meta = prop.META
    ran = [j for j in jobs if j.result is not None]
    verified = [j for j in ran if j.result.status == "verified"]
    samples = []
    for j in ran:
        r = j.result
        s = {"harness": j.harness, "what": j.desc, "params": j.params, "verdict": r.status,
             "sat_variables": r.vars, "sat_clauses": r.clauses, "solver_s": round(r.solver_s, 2),
             "wall_s": round(r.wall_s, 1), "properties_checked": r.props_total, "properties_ok": r.props_ok,
             "covers_satisfied": f"{r.covers_sat}/{r.covers_total}", "loop_bounds": r.loops}
        if r.reason:
            s["reason"] = r.reason[:400]
        if r.witness is not None:
            w = None
            if hasattr(prop, "decode"):
                try:
                    w = prop.decode(j, r.witness)
                except Exception as e:  # decoding is cosmetic
                    w = {"decode_error": str(e)}
            s["solver_witness_for_cover"] = w if w is not None else {"any_values_le_bytes": r.witness[:24]}
        samples.append(s)
    nontrivial = sum(1 for j in verified if j.result.covers_sat >= 1)
    cov = {
        "evaluations": len(ran),
        "distinct_nontrivial": nontrivial,
        "rule": "one evaluation = one solver query (a proof harness instance, CBMC+CaDiCaL over the compiled real code, all "
                "symbolic inputs within the stated bounds at once); counted as non-trivial when it was VERIFIED (every assertion "
                "and every unwinding assertion UNSAT) and its kani::cover! vacuity witness was SATISFIED by the solver; harness "
                "names are distinct by construction",
        "samples": samples,
        "obligations": sum(j.result.props_total for j in ran),
        "discharged": sum(j.result.props_ok for j in ran),
        "harnesses_run": len(ran), "harnesses_verified": len(verified),
        "harnesses_inconclusive": [{"harness": j.harness, "reason": j.result.reason[:300]} for j in ran if j.result.status == "inconclusive"],
        "harnesses_failed": [{"harness": j.harness, "reason": j.result.reason[:300]} for j in ran if j.result.status == "failed"],
        "functions_encoded": meta.get("functions_encoded", []),
        "stubs": meta.get("stubs", []),
        "bounds": meta.get("bounds", []),
        "outside_the_claim": meta.get("outside", []),
        "solver_seconds_total": round(sum(j.result.solver_s for j in ran), 1),
        "kani_codegen_s": round(codegen_s, 1),
        "sat_variables_max": max([j.result.vars for j in ran] or [0]),
        "sat_clauses_max": max([j.result.clauses for j in ran] or [0]),
        "tree_hash": getattr(ov, "hash", None),
        "accessors_appended_to_overlay": ov.access_files,
        "explanation": meta.get("explanation", ""),
        "checker_cmd": f"bin/check {prop.ID} --tier {tier}",
        "trusted_base": meta.get("trusted_base", []),
        "exhaustive": False,
        "known_findings_hit": [h.get("what") for h, _ in known_hits],
        "non_reproducing_counterexamples": [{k: n.get(k) for k in ("harness", "failed_check", "description")} for n in nonrepro],
        "notes": notes + ([f"fatal: {fatal[:1500]}"] if fatal else []),
    }
    return {
        "property_id": prop.ID, "tier": tier, "seed": seed, "level": prop.LEVEL, "coverage": cov,
        "assumptions": meta.get("assumptions", []),
        "wall_s": round(wall, 1), "violations": len(violations),
    }


# --------------------------------------------------------------------------------------
# dump body / dump.rs generation
# --------------------------------------------------------------------------------------
def dump_body_all():
    return r'''
        use crate::chess::movegen::tables::verif_access as t;
        j("ATTACKS", &t::magics::dump_table(), &mut out);
        j("ROOK_NOT_MASKS", &t::magics::dump_rook_not_masks(), &mut out);
        j("BISHOP_NOT_MASKS", &t::magics::dump_bishop_not_masks(), &mut out);
        j("ROOK_MAGICS", &t::magics::rook_magics().iter().map(|m| m.0).collect::<Vec<_>>(), &mut out);
        j("ROOK_OFFSETS", &t::magics::rook_magics().iter().map(|m| m.1 as u64).collect::<Vec<_>>(), &mut out);
        j("BISHOP_MAGICS", &t::magics::bishop_magics().iter().map(|m| m.0).collect::<Vec<_>>(), &mut out);
        j("BISHOP_OFFSETS", &t::magics::bishop_magics().iter().map(|m| m.1 as u64).collect::<Vec<_>>(), &mut out);
        j("KNIGHT", &t::knights::dump(), &mut out);
        j("KING", &t::king::dump(), &mut out);
        j("PAWN", &t::pawns::dump(), &mut out);
        j("BETWEEN", &t::between::dump(), &mut out);
        use crate::chess::zobrist::verif_access as z;
        j("Z_PIECE_SQUARE", &z::dump_piece_square(), &mut out);
        j("Z_CASTLING", &z::dump_castling(), &mut out);
        j("Z_EP", &z::dump_ep(), &mut out);
        j("Z_NO_EP", &[z::dump_no_ep()], &mut out);
        j("Z_SIDE", &[z::dump_side()], &mut out);
        {
            let t = unsafe { crate::engine::eval::piece_square_tables::TABLES };
            let mut mg: Vec<u64> = Vec::new();
            let mut eg: Vec<u64> = Vec::new();
            for p in 0..2 { for k in 0..6 { for s in 0..64 {
                mg.push(t[p][k][s].midgame().0 as i64 as u64);
                eg.push(t[p][k][s].endgame().0 as i64 as u64);
            } } }
            j("PST_MG", &mg, &mut out);
            j("PST_EG", &eg, &mut out);
        }
        j("PP_MASKS", &crate::engine::eval::verif_access::pawns::dump_masks(), &mut out);
        j("PP_PST_MG", &crate::engine::eval::verif_access::pawns::dump_pst_mg(), &mut out);
        j("PP_PST_EG", &crate::engine::eval::verif_access::pawns::dump_pst_eg(), &mut out);
'''


def _arr(vals, fmt="0x{:x}"):
    return "[" + ", ".join(fmt.format(v) for v in vals) + "]"


def dump_rs(data, keys):
    out = ["// generated: constants dumped from the real init() of this tree", "#![allow(dead_code)]"]
    for k in keys:
        if k == "PP":
            if "PP_MASKS" not in data:
                raise Inconclusive("dump key PP_MASKS not produced by the native dump")
        elif k == "PST":
            if "PST_MG" not in data:
                raise Inconclusive("dump key PST_MG not produced by the native dump")
        elif k not in data:
            raise Inconclusive(f"dump key {k} not produced by the native dump")
        v = data.get(k)
        if k in ("ATTACKS", "ROOK_NOT_MASKS", "BISHOP_NOT_MASKS", "KNIGHT", "KING", "Z_EP", "ROOK_MAGICS", "BISHOP_MAGICS", "ROOK_OFFSETS", "BISHOP_OFFSETS"):
            out.append(f"pub const {k}: [u64; {len(v)}] = {_arr(v)};")
        elif k == "PAWN":
            out.append(f"pub const PAWN: [[u64; 64]; 2] = [{_arr(v[:64])}, {_arr(v[64:])}];")
        elif k == "BETWEEN":
            rows = ", ".join(_arr(v[i * 64:(i + 1) * 64]) for i in range(64))
            out.append(f"pub const BETWEEN: [[u64; 64]; 64] = [{rows}];")
        elif k == "Z_PIECE_SQUARE":
            pl = []
            for p in range(2):
                sq = ", ".join(_arr(v[p * 384 + s * 6: p * 384 + s * 6 + 6]) for s in range(64))
                pl.append(f"[{sq}]")
            out.append(f"pub const Z_PIECE_SQUARE: [[[u64; 6]; 64]; 2] = [{', '.join(pl)}];")
        elif k == "Z_CASTLING":
            out.append(f"pub const Z_CASTLING: [[u64; 2]; 2] = [{_arr(v[:2])}, {_arr(v[2:])}];")
        elif k == "PST":
            mg, eg = data["PST_MG"], data["PST_EG"]
            def sgn(x):
                return x - (1 << 64) if x >= (1 << 63) else x
            pl = []
            for p in range(2):
                ks = []
                for kk in range(6):
                    base = p * 384 + kk * 64
                    ks.append("[" + ", ".join(f"PE::new({sgn(mg[base + s])}, {sgn(eg[base + s])})" for s in range(64)) + "]")
                pl.append("[" + ", ".join(ks) + "]")
            out.append("use crate::engine::eval::PhasedEval as PE;")
            out.append(f"pub const PST: [[[PE; 64]; 6]; 2] = [{', '.join(pl)}];")
        elif k == "PP":
            def sgn(x):
                return x - (1 << 64) if x >= (1 << 63) else x
            m, mg, eg = data["PP_MASKS"], data["PP_PST_MG"], data["PP_PST_EG"]
            out.append(f"pub const PP_MASKS: [[u64; 64]; 2] = [{_arr(m[:64])}, {_arr(m[64:])}];")
            rows = ["[" + ", ".join(f"crate::engine::eval::PhasedEval::new({sgn(mg[c * 64 + s])}, {sgn(eg[c * 64 + s])})" for s in range(64)) + "]" for c in range(2)]
            out.append(f"pub const PP_PST: [[crate::engine::eval::PhasedEval; 64]; 2] = [{', '.join(rows)}];")
        elif k in ("Z_NO_EP", "Z_SIDE"):
            out.append(f"pub const {k}: u64 = 0x{v[0]:x};")
        else:
            raise Inconclusive(f"dump key {k} has no generator")
    return "\n".join(out) + "\n"


# --------------------------------------------------------------------------------------
# replay of a stored counterexample
# --------------------------------------------------------------------------------------
def replay_file(prop, path):
    rec = json.loads(Path(path).read_text())
    ov = Overlay(prop.ID + "-replay")
    try:
        ov.create(prop.MODULES, dump_body_all() + getattr(prop, "DUMP_EXTRA_BODY", ""), rec.get("gen") or "", getattr(prop, "ACCESS", None))
        (ov.tree / "src" / "verif" / "dump.rs").write_text(
            dump_rs(native_dump(ov, bool(getattr(prop, "DUMP", []))), getattr(prop, "DUMP", [])))
        rep_dev, case, tail = playback(ov, rec["module"], rec["harness"], rec["values"], release=False, tag="r")
        rep_rel, case2, tail2 = playback(ov, rec["module"], rec["harness"], rec["values"], release=True, tag="r")
        print(tail[-1200:])
        print(f"replayed {path}: dev profile {'FAILS' if rep_dev else 'passes'}, release profile {'FAILS' if rep_rel else 'passes'}; case={json.dumps(case or case2)}")
        if rep_dev or rep_rel:
            print(f"VIOLATION property={prop.ID} replay={path}")
            return 1
        return 0
    finally:
        ov.cleanup()


def main(argv):
    import argparse
    import importlib
    ap = argparse.ArgumentParser()
    ap.add_argument("prop")
    ap.add_argument("--tier", default=os.environ.get("VERIF_TIER", "quick"), choices=["quick", "thorough"])
    ap.add_argument("--replay")
    a = ap.parse_args(argv)
    seed = int(os.environ.get("VERIF_SEED", "0") or 0)
    sys.path.insert(0, str(VERIF / "lib"))
    prop = importlib.import_module(f"props.{a.prop.lower()}")
    if a.replay:
        return replay_file(prop, a.replay)
    return run_property(prop, a.tier, seed)


if __name__ == "__main__":
    sys.exit(main(sys.argv[1:]))
