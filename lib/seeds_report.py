#!/usr/bin/env python3
"""Rebuilds DESIGN.md section 10 (seeded changes: which checks catch which) from seeded/*/meta.json."""
import glob, json, re
from pathlib import Path
V = Path(__file__).resolve().parents[1]
rows = []
for f in sorted(glob.glob(str(V / "seeded" / "*" / "meta.json"))):
    m = json.load(open(f))
    name = Path(f).parent.name
    runs = m.get("check_runs", [])
    det = [r for r in runs if r["exit"] == 1]
    missed = [r for r in runs if r["exit"] == 0]
    inconc = [r for r in runs if r["exit"] == 2]
    if det:
        v = det[-1]["violation_lines"]
        harness = ""
        for l in v:
            mm = re.search(r"harness=(\S+)", l)
            if mm:
                harness = mm.group(1)
                break
        verdict = "caught: " + "; ".join(sorted(set(r["check"].replace("bin/check ", "") for r in det))) + (f" (e.g. `{harness}`)" if harness else "")
        if missed:
            verdict += " - missed by: " + "; ".join(sorted(set(r["check"].replace("bin/check ", "") for r in missed)))
    elif runs:
        verdict = "MISSED by " + "; ".join(sorted(set(r["check"].replace("bin/check ", "") for r in runs)))
    else:
        verdict = "not run (property not claimed)"
    note = "; ".join(x for x in (m.get("why_missed"), m.get("comment")) if x)
    what = m.get("what", "")
    rows.append((name, what, verdict, note))
out = ["## 10. Seeded changes: which checks catch which", "",
       "Changes produced by independent sub-agents that saw only the property text and a scratch worktree (never /verif); each breaks its property while the crate compiles and",
       "all 181 tests pass; each was re-confirmed here in a scratch worktree (`bin/confirm_seed`: demo passes clean, suite passes with the patch, demo fails with the patch) and is",
       "kept under `seeded/<property>-<slug>/` (patch.diff, demo.rs, notes.md, meta.json with the exact check runs). A check run = patch applied to a worktree of /repo's HEAD,",
       "check pointed at it (`VERIF_REPO`), exit 1 means a natively replayed VIOLATION.", "",
       "| seeded change | what it is | outcome | remark |", "|---|---|---|---|"]
for r in rows:
    out.append("| " + " | ".join(x.replace("|", "/") for x in r) + " |")
n_c = sum(1 for r in rows if r[2].startswith("caught"))
n_m = sum(1 for r in rows if r[2].startswith("MISSED"))
n_n = sum(1 for r in rows if r[2].startswith("not run"))
out += ["", f"Totals: {len(rows)} seeded changes; {n_c} caught, {n_m} missed, {n_n} for properties that are not claimed.", "",
        "**What the misses have in common.** Every miss lies outside a stated claim boundary, not inside a claimed region: (a) whole-search behaviour (C04 check extension in the "
        "recursive negamax, C08 aspiration/PV interplay) - one negamax node with its move loop is out of symbolic reach; (b) text produced by `format_move` (two C18 seeds) - "
        "`String`/`format!` code did not finish; (c) a thread race (C12 `try_lock`) - no thread model; (d) two refactorings that change the shape of private items the "
        "accessors name (C03 combination key, C12 persisted counter-move table): the check then exits 2 with 'harness does not compile against this tree' - inconclusive, "
        "never a pass. **What the seeds changed in the machinery:** three rounds of strengthening came directly from misses - native replays call `init()`; the C14 replay "
        "searches GUI-sized clocks; C19 gained `new(0)`; C17 and C13 gained command-level harnesses on the real `Uci::execute` (single command, then two-command sequences, "
        "then bounded unwinding after a seeded loop made CBMC unroll forever); C16 gained the composition lemma with a native witness search.", "",
        "**Property-preserving changes** tried against the newest harnesses are kept in `seeded/_benign/` (README there): a repaired version of the seeded position-command "
        "optimisation verifies (7/7, exit 0); a new colour-symmetric evaluation term first produced a false VIOLATION from `c16_compose` - corrected (section 5), now exit 2 "
        "with a non-reproducing counterexample and no violation claimed.", ""]
text = "\n".join(out)
d = (V / "DESIGN.md").read_text()
if "## 10. Seeded changes" in d:
    d = d[: d.index("## 10. Seeded changes")]
(V / "DESIGN.md").write_text(d.rstrip("\n") + "\n\n" + text)
print(text[-600:])
