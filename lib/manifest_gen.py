#!/usr/bin/env python3
"""Regenerates /verif/MANIFEST.json from lib/props/*.py (single source of truth for levels/notes)."""
import importlib, json, sys
from pathlib import Path
V = Path(__file__).resolve().parents[1]
sys.path.insert(0, str(V / "lib"))

NOT_APPLICABLE = {
    "C05": "quantifies over interleavings of the input thread with spawned search threads (Mutex/Condvar/futex); Kani/CBMC have no "
           "model of Rust threads, and a hand-written scheduler would be a model, not symbolic execution of the code (DESIGN.md s.6)",
    "C09": "the symbolic variable would be the index of the first poll that sees the stop flag, 10,000 nodes apart inside the "
           "recursive search; symbolic execution of even one search iteration is out of reach (one move generation on a near-empty "
           "board is 1.5 M SAT variables; recursion is unrolled syntactically) (DESIGN.md s.6)",
}
PENDING = {}

def main():
    checks = []
    done = set()
    for f in sorted((V / "lib" / "props").glob("c*.py")):
        m = importlib.import_module(f"props.{f.stem}")
        if not getattr(m, "CLAIMED", True):
            NOT_APPLICABLE[m.ID] = m.NOT_CLAIMED_REASON
            continue
        man = m.MANIFEST
        done.add(m.ID)
        checks.append({
            "property_id": m.ID,
            "quick_cmd": f"bin/check {m.ID} --tier quick",
            "thorough_cmd": f"bin/check {m.ID} --tier thorough",
            "evidence_file": f"/verif/evidence/{m.ID}.json",
            "replay_cmd_template": f"bin/check {m.ID} --replay {{path}}",
            "engine": "kani-cbmc",
            "level_claimed": {"category": m.LEVEL, "text": man["text"], "design_ref": man.get("design_ref", "DESIGN.md s.4")},
            "level_note": man["note"],
            "technique": man.get("technique", "bounded symbolic execution of the compiled real code (Kani 0.68 -> CBMC 6.11 -> CaDiCaL SAT), "
                                              "counterexamples replayed natively"),
        })
    na = [{"property_id": k, "reason": v} for k, v in sorted(NOT_APPLICABLE.items()) if k not in done]
    allp = [json.loads(l)["id"] for l in (V / "properties.jsonl").read_text().splitlines() if l.strip()]
    for p in allp:
        if p not in done and p not in NOT_APPLICABLE:
            na.append({"property_id": p, "reason": PENDING.get(p, "no check registered yet (machinery for this property not built / not sound enough to claim)")})
    man = {
        "version": 1,
        "setup_cmd": "bin/setup",
        "hooks": {
            "guard": "jgilchrist_tcheran_verif",
            "enable": "none needed: checks build an overlay copy of /repo's working tree and append #[cfg(any(kani,test))] accessor modules there; "
                      "the guard name is reserved and unused, no hook commit exists in /repo",
            "baseline_off_cmd": "cd /repo && cargo test --workspace --no-fail-fast --offline",
            "source_commits": [],
            "add_only": True,
        },
        "engines": [{
            "name": "kani-cbmc", "path": "/verif/lib/vdriver.py", "serves_properties": sorted(done),
            "kind_free_text": "Kani 0.68 compiles the real crate (overlay of the working tree) to GOTO; CBMC 6.11 + CaDiCaL decide each "
                              "proof harness over all symbolic inputs within stated bounds (unwinding assertions on); counterexamples "
                              "are replayed natively (dev and release) through Kani's concrete playback before being reported",
        }],
        "checks": checks,
        "not_applicable": na,
        "notes": "See DESIGN.md. Exit codes: 0 held on everything explored; 1 VIOLATION (natively reproduced); 2 inconclusive (build failure "
                 "of a harness against the tree, non-reproducing counterexample, or nothing verified).",
    }
    (V / "MANIFEST.json").write_text(json.dumps(man, indent=1) + "\n")
    print("MANIFEST.json:", len(checks), "checks,", len(na), "not applicable")

if __name__ == "__main__":
    main()
