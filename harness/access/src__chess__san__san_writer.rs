
// ---- appended by /verif (overlay only, never committed to /repo) ----
#[cfg(any(kani, test))]
#[allow(dead_code, unused_imports, clippy::all, clippy::pedantic, clippy::nursery)]
pub mod verif_access {
    use super::*;
    /// 0 none, 1 file, 2 rank, 3 exact
    pub fn ambiguity(game: &Game, mv: Move) -> u8 {
        match required_ambiguity_resolution(game, mv) {
            AmbiguityResolution::None => 0,
            AmbiguityResolution::File => 1,
            AmbiguityResolution::Rank => 2,
            AmbiguityResolution::Exact => 3,
        }
    }
}
