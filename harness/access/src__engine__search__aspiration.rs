
// ---- appended by /verif (overlay only, never committed to /repo) ----
#[cfg(any(kani, test))]
#[allow(dead_code, unused_imports, clippy::all, clippy::pedantic, clippy::nursery)]
pub mod verif_access {
    use super::*;
    pub fn around(eval: Eval, width: Eval) -> (Eval, Eval, Eval) {
        let w = Window::around(eval, width);
        (w.alpha, w.beta, w.width)
    }
    pub fn no_window() -> (Eval, Eval, Eval) {
        let w = Window::no_window();
        (w.alpha, w.beta, w.width)
    }
    pub fn widen_down(alpha: Eval, beta: Eval, width: Eval) -> (Eval, Eval, Eval) {
        let mut w = Window { alpha, beta, width };
        w.widen_down();
        (w.alpha, w.beta, w.width)
    }
    pub fn widen_up(alpha: Eval, beta: Eval, width: Eval) -> (Eval, Eval, Eval) {
        let mut w = Window { alpha, beta, width };
        w.widen_up();
        (w.alpha, w.beta, w.width)
    }
}
