
// ---- appended by /verif (overlay only, never committed to /repo) ----
#[cfg(any(kani, test))]
#[allow(dead_code, unused_imports, clippy::all, clippy::pedantic, clippy::nursery)]
pub mod verif_access {
    use super::*;
    pub fn plies(fullmove_number: u32, player: Player) -> u32 { plies_from_fullmove_number(fullmove_number, player) }
    /// board field only: Some(board) / None (rejected)
    pub fn board_field(s: &str) -> Option<Board> {
        match fen_position(s) { Ok((_, b)) => Some(b), Err(_) => None }
    }
}
