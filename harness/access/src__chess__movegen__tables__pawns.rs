
// ---- appended by /verif (overlay only, never committed to /repo) ----
#[cfg(any(kani, test))]
#[allow(dead_code, unused_imports, clippy::all, clippy::pedantic, clippy::nursery)]
pub mod verif_access {
    use super::*;
    pub fn load(t: &[[u64; 64]; 2]) {
        unsafe { ATTACKS_TABLE = core::mem::transmute::<[[u64; 64]; 2], [[Bitboard; 64]; 2]>(*t); }
    }
    pub fn dump() -> Vec<u64> { unsafe { (0..128).map(|i| ATTACKS_TABLE[i / 64][i % 64].as_u64()).collect() } }
}
