
// ---- appended by /verif (overlay only, never committed to /repo) ----
#[cfg(any(kani, test))]
#[allow(dead_code, unused_imports, clippy::all, clippy::pedantic, clippy::nursery)]
pub mod verif_access {
    use super::*;
    pub fn stops(ts: &TimeStrategy) -> (Duration, Duration) { (ts.soft_stop, ts.hard_stop) }
    pub fn next_check_at(ts: &TimeStrategy) -> u64 { ts.next_check_at }
    /// the handle a finished (or running) search leaves behind in `Uci::control`
    pub fn mk_control() -> Control { Control { force_stop: Arc::new(AtomicBool::new(false)) } }
}
