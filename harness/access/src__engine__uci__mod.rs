
// ---- appended by /verif (overlay only, never committed to /repo) ----
#[cfg(any(kani, test))]
#[allow(dead_code, unused_imports, clippy::all, clippy::pedantic, clippy::nursery)]
pub mod verif_access {
    pub use super::options::{HashOption, MoveOverheadOption, ThreadsOption, UciOption, UciOptionType};
    use super::*;
    /// a `Uci` as `uci()` builds it (same field values; smallest table), holding `game`
    pub fn mk_uci(game: Game) -> Uci {
        Uci {
            control: None,
            is_stopped: Arc::new(LockLatch::new()),
            reporter: UciReporter { pretty_output: false },
            debug: false,
            persistent_state: Arc::new(Mutex::new(PersistentState::new(0))),
            game,
            options: EngineOptions::default(),
            block_on_threads: false,
        }
    }
    /// the same, holding the given persistent state (tables of an arbitrary earlier session)
    pub fn mk_uci_with(game: Game, ps: PersistentState) -> Uci {
        let mut u = mk_uci(game);
        u.persistent_state = Arc::new(Mutex::new(ps));
        u
    }
    pub fn with_state<R>(u: &Uci, f: impl FnOnce(&mut PersistentState) -> R) -> R { f(&mut u.persistent_state.lock().unwrap()) }
    pub fn execute_ok(u: &mut Uci, cmd: &UciCommand) -> bool { u.execute(cmd).is_ok() }
    pub fn game(u: &Uci) -> &Game { &u.game }
    pub fn options(u: &Uci) -> &EngineOptions { &u.options }
    pub fn set_hash_size(u: &mut Uci, mb: usize) { u.options.hash_size = mb; }
    /// `Some` = a `go` was issued earlier (the handle is only cleared by `stop`), `None` = no search yet / stopped
    pub fn set_control(u: &mut Uci, earlier_go: bool) {
        u.control = if earlier_go { Some(crate::engine::search::time_control::verif_access::mk_control()) } else { None };
    }
    pub fn table_slots(u: &Uci) -> usize { crate::engine::transposition_table::verif_access::len(&u.persistent_state.lock().unwrap().tt) }
}
