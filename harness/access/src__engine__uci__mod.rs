
// ---- appended by /verif (overlay only, never committed to /repo) ----
#[cfg(any(kani, test))]
#[allow(dead_code, unused_imports, clippy::all, clippy::pedantic, clippy::nursery)]
pub mod verif_access {
    pub use super::options::{HashOption, MoveOverheadOption, ThreadsOption, UciOption, UciOptionType};
}
