
// ---- appended by /verif (overlay only, never committed to /repo) ----
#[cfg(any(kani, test))]
#[allow(dead_code, unused_imports, clippy::all, clippy::pedantic, clippy::nursery)]
pub mod verif_access {
    pub use super::options::{HashOption, MoveOverheadOption, ThreadsOption, UciOption, UciOptionType};
    use super::*;
    /// a `Uci` as `uci()` builds it (same field values; smallest table), holding `game`
    pub fn mk_uci(game: Game) -> Uci {
        Uci {
            control: None,
            is_stopped: Arc::new(LockLatch::new()),
            reporter: UciReporter { pretty_output: false },
            debug: false,
            persistent_state: Arc::new(Mutex::new(PersistentState::new(0))),
            game,
            options: EngineOptions::default(),
            block_on_threads: false,
        }
    }
    pub fn execute_ok(u: &mut Uci, cmd: &UciCommand) -> bool { u.execute(cmd).is_ok() }
    pub fn game(u: &Uci) -> &Game { &u.game }
}
