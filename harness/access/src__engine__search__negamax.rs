
// ---- appended by /verif (overlay only, never committed to /repo) ----
#[cfg(any(kani, test))]
#[allow(dead_code, unused_imports, clippy::all, clippy::pedantic, clippy::nursery)]
pub mod verif_access {
    use super::*;
    pub fn depth_reduction(v: u8, less: bool) -> u8 {
        let mut d = DepthReduction(v);
        d.reduce_less_if(less);
        d.value()
    }
}
