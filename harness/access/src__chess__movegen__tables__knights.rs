
// ---- appended by /verif (overlay only, never committed to /repo) ----
#[cfg(any(kani, test))]
#[allow(dead_code, unused_imports, clippy::all, clippy::pedantic, clippy::nursery)]
pub mod verif_access {
    use super::*;
    pub fn load(t: &[u64; 64]) {
        unsafe { ATTACKS_TABLE = core::mem::transmute::<[u64; 64], [Bitboard; 64]>(*t); }
    }
    pub fn dump() -> Vec<u64> { unsafe { (0..64).map(|i| ATTACKS_TABLE[i].as_u64()).collect() } }
}
