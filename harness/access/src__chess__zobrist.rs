
// ---- appended by /verif (overlay only, never committed to /repo) ----
#[cfg(any(kani, test))]
#[allow(dead_code, unused_imports, clippy::all, clippy::pedantic, clippy::nursery)]
pub mod verif_access {
    use super::*;
    pub fn load(ps: &[[[u64; 6]; 64]; 2], ca: &[[u64; 2]; 2], ep: &[u64; 64], no_ep: u64, side: u64) {
        unsafe {
            components::PIECE_SQUARE = *ps;
            components::CASTLING = *ca;
            components::EN_PASSANT_SQUARE = *ep;
            components::NO_EN_PASSANT_SQUARE = no_ep;
            components::SIDE_TO_PLAY = side;
        }
    }
    pub fn dump_piece_square() -> Vec<u64> { unsafe { (0..768).map(|i| components::PIECE_SQUARE[i / 384][(i / 6) % 64][i % 6]).collect() } }
    pub fn dump_castling() -> Vec<u64> { unsafe { (0..4).map(|i| components::CASTLING[i / 2][i % 2]).collect() } }
    pub fn dump_ep() -> Vec<u64> { unsafe { (0..64).map(|i| components::EN_PASSANT_SQUARE[i]).collect() } }
    pub fn dump_no_ep() -> u64 { unsafe { components::NO_EN_PASSANT_SQUARE } }
    pub fn dump_side() -> u64 { unsafe { components::SIDE_TO_PLAY } }
    // the real component look-ups (private in zobrist.rs)
    pub fn c_piece(player: Player, kind: PieceKind, sq: Square) -> u64 { piece_on_square(player, kind, sq) }
    pub fn c_castle(player: Player, side: CastleRightsSide) -> u64 { castle_rights(player, side) }
    pub fn c_ep(sq: Option<Square>) -> u64 { en_passant(sq) }
    pub fn c_side() -> u64 { side_to_play() }
}
