
// ---- appended by /verif (overlay only, never committed to /repo) ----
#[cfg(any(kani, test))]
#[allow(dead_code, unused_imports, clippy::all, clippy::pedantic, clippy::nursery)]
pub mod verif_access {
    pub use super::aspiration::verif_access as aspiration;
    pub use super::move_ordering::{score_quiet, score_tactical, BAD_CAPTURE_SCORE, GOOD_CAPTURE_SCORE, HISTORY_MAX_SCORE, QUIET_SCORE};
    pub use super::negamax::verif_access as negamax;
    pub use super::params::*;
    pub use super::principal_variation::PrincipalVariation;
    pub use super::tables::lmr_table::lmr_reduction;
    pub use super::tables::{CountermoveTable, HistoryTable, KillersTable};
    pub use super::tables::verif_access as tables;
    pub const MAX_SEARCH_DEPTH: u8 = super::MAX_SEARCH_DEPTH;
    pub const MAX_SEARCH_DEPTH_SIZE: usize = super::MAX_SEARCH_DEPTH_SIZE;
    pub fn persistent_from(tt: super::SearchTranspositionTable, history_table: HistoryTable) -> super::PersistentState {
        super::PersistentState { tt, history_table, tablebase: super::Tablebase::new() }
    }
    pub fn ctx_counters(ctx: &super::SearchContext<'_>) -> (u64, u8, u64) {
        (ctx.nodes_visited, ctx.max_depth_reached, ctx.tbhits)
    }
}
