
// ---- appended by /verif (overlay only, never committed to /repo) ----
#[cfg(any(kani, test))]
#[allow(dead_code, unused_imports, clippy::all, clippy::pedantic, clippy::nursery)]
pub mod verif_access {
    use super::*;
    pub fn history_set(h: &mut HistoryTable, player: Player, mv: Move, v: i32) {
        h.0[player.array_idx()][mv.src().array_idx()][mv.dst().array_idx()] = v;
    }
    /// a history table with arbitrary content (nondeterministic under Kani)
    #[cfg(kani)]
    pub fn history_any() -> HistoryTable {
        let mut h = HistoryTable::new();
        let p: usize = kani::any();
        let a: usize = kani::any();
        let b: usize = kani::any();
        kani::assume(p < 2 && a < 64 && b < 64);
        // one arbitrary cell holds an arbitrary score; which cell is symbolic, so every cell is covered
        h.0[p][a][b] = kani::any();
        h
    }
    pub fn history_cell(h: &HistoryTable, p: usize, a: usize, b: usize) -> i32 { h.0[p][a][b] }
    pub fn killers_set(k: &mut KillersTable, ply: usize, v: [Option<Move>; 2]) { k.0[ply] = v; }
    pub fn killers_raw(k: &KillersTable, ply: usize) -> [Option<Move>; 2] { k.0[ply] }
    pub fn counter_raw(c: &CountermoveTable, p: usize, a: usize, b: usize) -> Option<Move> { c.0[p][a][b] }
}
