
// ---- appended by /verif (overlay only, never committed to /repo) ----
#[cfg(any(kani, test))]
#[allow(dead_code, unused_imports, clippy::all, clippy::pedantic, clippy::nursery)]
pub mod verif_access {
    use super::*;
    pub fn history_set(h: &mut HistoryTable, player: Player, mv: Move, v: i32) {
        h.0[player.array_idx()][mv.src().array_idx()][mv.dst().array_idx()] = v;
    }
    pub fn history_cell(h: &HistoryTable, p: usize, a: usize, b: usize) -> i32 { h.0[p][a][b] }
    pub fn killers_raw(k: &KillersTable, ply: usize) -> [Option<Move>; 2] { k.0[ply] }
    pub fn counter_raw(c: &CountermoveTable, p: usize, a: usize, b: usize) -> Option<Move> { c.0[p][a][b] }
}
