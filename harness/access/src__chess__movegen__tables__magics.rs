
// ---- appended by /verif (overlay only, never committed to /repo) ----
#[cfg(any(kani, test))]
#[allow(dead_code, unused_imports, clippy::all, clippy::pedantic, clippy::nursery)]
pub mod verif_access {
    use super::*;
    pub const TABLE_LEN: usize = 87988;
    pub fn load(table: &[u64; 87988], rook_not_masks: &[u64; 64], bishop_not_masks: &[u64; 64]) {
        unsafe {
            ATTACKS_TABLE = core::mem::transmute::<[u64; 87988], AttacksTable>(*table);
            ROOK_NOT_MASKS = core::mem::transmute::<[u64; 64], [Bitboard; 64]>(*rook_not_masks);
            BISHOP_NOT_MASKS = core::mem::transmute::<[u64; 64], [Bitboard; 64]>(*bishop_not_masks);
        }
    }
    pub fn dump_table() -> Vec<u64> { unsafe { (0..87988).map(|i| ATTACKS_TABLE[i].as_u64()).collect() } }
    pub fn dump_rook_not_masks() -> Vec<u64> { unsafe { (0..64).map(|i| ROOK_NOT_MASKS[i].as_u64()).collect() } }
    pub fn dump_bishop_not_masks() -> Vec<u64> { unsafe { (0..64).map(|i| BISHOP_NOT_MASKS[i].as_u64()).collect() } }
    pub fn rook_magics() -> Vec<(u64, usize)> { DEFAULT_ROOK_MAGICS.to_vec() }
    pub fn bishop_magics() -> Vec<(u64, usize)> { DEFAULT_BISHOP_MAGICS.to_vec() }
    pub fn rook_index(s: Square, b: Bitboard) -> usize { table_index_rook(s, b) }
    pub fn bishop_index(s: Square, b: Bitboard) -> usize { table_index_bishop(s, b) }
}
