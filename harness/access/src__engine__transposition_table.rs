
// ---- appended by /verif (overlay only, never committed to /repo) ----
#[cfg(any(kani, test))]
#[allow(dead_code, unused_imports, clippy::all, clippy::pedantic, clippy::nursery)]
pub mod verif_access {
    use super::*;
    /// a table with the given content; built through the real constructor and field assignments (no struct literal), so that
    /// fields added by a refactoring keep whatever `new` gives them
    pub fn from_parts<T: Clone + TTOverwriteable>(
        data: Vec<Option<TranspositionTableEntry<T>>>,
        generation: u8,
        occupied: usize,
        size: usize,
    ) -> TranspositionTable<T> {
        let mut tt = TranspositionTable::<T>::new(0);
        let old = core::mem::replace(&mut tt.data, data);
        core::mem::forget(old);
        tt.generation = generation;
        tt.occupied = occupied;
        tt.size = size;
        tt
    }
    pub fn slot<T: Clone + TTOverwriteable>(tt: &TranspositionTable<T>, i: usize) -> &Option<TranspositionTableEntry<T>> {
        &tt.data[i]
    }
    pub fn len<T: Clone + TTOverwriteable>(tt: &TranspositionTable<T>) -> usize { tt.data.len() }
    pub fn size_mb<T: Clone + TTOverwriteable>(tt: &TranspositionTable<T>) -> usize { tt.size }
    pub fn entry_idx<T: Clone + TTOverwriteable>(tt: &TranspositionTable<T>, key: &ZobristHash) -> usize { tt.get_entry_idx(key) }
}
