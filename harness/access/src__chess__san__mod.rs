
// ---- appended by /verif (overlay only, never committed to /repo) ----
#[cfg(any(kani, test))]
#[allow(dead_code, unused_imports)]
pub mod verif_access {
    pub use super::san_parser::parse_move;
    pub use super::san_writer::verif_access::ambiguity;
}
