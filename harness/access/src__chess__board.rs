
// ---- appended by /verif (overlay only, never committed to /repo) ----
#[cfg(any(kani, test))]
#[allow(dead_code, unused_imports, clippy::all, clippy::pedantic, clippy::nursery)]
pub mod verif_access {
    use super::*;

    /// Build a Board directly from the three redundant views.
    pub fn board_from(pcs: &[[u64; 6]; 2], squares: [Option<Piece>; 64]) -> Board {
        let w = pcs[0][0] | pcs[0][1] | pcs[0][2] | pcs[0][3] | pcs[0][4] | pcs[0][5];
        let b = pcs[1][0] | pcs[1][1] | pcs[1][2] | pcs[1][3] | pcs[1][4] | pcs[1][5];
        Board {
            pieces: [
                Bitboard::new(pcs[0][0] | pcs[1][0]),
                Bitboard::new(pcs[0][1] | pcs[1][1]),
                Bitboard::new(pcs[0][2] | pcs[1][2]),
                Bitboard::new(pcs[0][3] | pcs[1][3]),
                Bitboard::new(pcs[0][4] | pcs[1][4]),
                Bitboard::new(pcs[0][5] | pcs[1][5]),
            ],
            colors: ByPlayer::new(Bitboard::new(w), Bitboard::new(b)),
            squares,
        }
    }
    /// Raw view: by-kind boards.
    pub fn kinds_raw(b: &Board) -> [u64; 6] {
        [b.pieces[0].as_u64(), b.pieces[1].as_u64(), b.pieces[2].as_u64(), b.pieces[3].as_u64(), b.pieces[4].as_u64(), b.pieces[5].as_u64()]
    }
    /// Raw view: by-colour boards.
    pub fn colors_raw(b: &Board) -> [u64; 2] {
        [b.colors.white().as_u64(), b.colors.black().as_u64()]
    }
    /// Raw view: mailbox entry.
    pub fn square_raw(b: &Board, i: usize) -> Option<Piece> {
        b.squares[i]
    }
    pub fn squares_all(b: &Board) -> &[Option<Piece>; 64] {
        &b.squares
    }
}
