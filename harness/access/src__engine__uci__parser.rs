
// ---- appended by /verif (overlay only, never committed to /repo) ----
#[cfg(any(kani, test))]
#[allow(dead_code, unused_imports, clippy::all, clippy::pedantic, clippy::nursery)]
pub mod verif_access {
    use super::*;
    /// the private single-move parser: (move, number of bytes left unread) or None
    pub fn uci_move_parse(s: &str) -> Option<(UciMove, usize)> {
        match uci_move(s) { Ok((rest, m)) => Some((m, rest.len())), Err(_) => None }
    }
}
