
// ---- appended by /verif (overlay only, never committed to /repo) ----
#[cfg(any(kani, test))]
#[allow(dead_code, unused_imports, clippy::all, clippy::pedantic, clippy::nursery)]
pub mod verif_access {
    pub use super::material::eval as material_eval;
    pub use super::mobility_and_king_safety::eval as mobility_eval;
    pub use super::mobility_and_king_safety::verif_access::side_term as mobility_side_term;
    pub use super::params::{ATTACKED_KING_SQUARES, BISHOP_MOBILITY, BISHOP_PAIR_BONUS, KNIGHT_MOBILITY, PIECE_VALUES, QUEEN_MOBILITY, ROOK_MOBILITY};
    pub use super::pawn_structure::eval as pawn_eval;
    pub use super::phased_eval::{piece_phase_value_contribution, phase_value};
    pub use super::pawn_structure::verif_access as pawns;
    pub use super::Trace;
}
