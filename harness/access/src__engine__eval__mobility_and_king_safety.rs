
// ---- appended by /verif (overlay only, never committed to /repo) ----
#[cfg(any(kani, test))]
#[allow(dead_code, unused_imports, clippy::all, clippy::pedantic, clippy::nursery)]
pub mod verif_access {
    use super::*;
    /// the private per-side term
    pub fn side_term(game: &Game, player: Player) -> PhasedEval {
        let mut t = Trace::new();
        mobility_and_opp_king_safety_for::<false>(game, player, &mut t)
    }
}
