
// ---- appended by /verif (overlay only, never committed to /repo) ----
#[cfg(any(kani, test))]
#[allow(dead_code, unused_imports)]
pub mod verif_access {
    pub use super::fen_parser::verif_access::{board_field, plies};
}
