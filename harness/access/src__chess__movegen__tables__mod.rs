
// ---- appended by /verif (overlay only, never committed to /repo) ----
#[cfg(any(kani, test))]
#[allow(dead_code, unused_imports)]
pub mod verif_access {
    pub use super::between::verif_access as between;
    pub use super::king::verif_access as king;
    pub use super::knights::verif_access as knights;
    pub use super::magics::verif_access as magics;
    pub use super::pawns::verif_access as pawns;
}
