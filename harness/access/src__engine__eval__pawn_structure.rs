
// ---- appended by /verif (overlay only, never committed to /repo) ----
#[cfg(any(kani, test))]
#[allow(dead_code, unused_imports, clippy::all, clippy::pedantic, clippy::nursery)]
pub mod verif_access {
    use super::*;
    pub fn load(masks: &[[u64; 64]; 2], pst: &[[PhasedEval; 64]; 2]) {
        unsafe {
            ENEMY_PASSED_PAWN_MASKS = core::mem::transmute::<[[u64; 64]; 2], [[Bitboard; 64]; 2]>(*masks);
            PASSED_PAWN_PST = *pst;
        }
    }
    pub fn mask(player: Player, sq: Square) -> Bitboard { enemy_passed_pawn_mask(player, sq) }
    pub fn pst(player: Player, sq: Square) -> PhasedEval { pst_value(player, sq) }
    pub fn dump_masks() -> Vec<u64> { unsafe { (0..128).map(|i| ENEMY_PASSED_PAWN_MASKS[i / 64][i % 64].as_u64()).collect() } }
    pub fn dump_pst_mg() -> Vec<u64> { unsafe { (0..128).map(|i| PASSED_PAWN_PST[i / 64][i % 64].midgame().0 as i64 as u64).collect() } }
    pub fn dump_pst_eg() -> Vec<u64> { unsafe { (0..128).map(|i| PASSED_PAWN_PST[i / 64][i % 64].endgame().0 as i64 as u64).collect() } }
}
