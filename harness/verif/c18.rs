//! C18 (kernels) — SAN disambiguation class, check suffix, shape of the text.
use super::geom;
use super::pos::{self, BPos, B, K, N, P, Q, R};
use super::step;
use super::stubs::{move_of, raw_of};
use crate::chess::game::Game;
use crate::chess::moves::MoveList;
use crate::chess::san;

static mut CUR: Option<BPos> = None;
static mut KIND: usize = 0;
static mut TO: u8 = 0;
static mut EXTRA: u16 = 0;

/// Stand-in for the generator while the writer asks for "all legal moves": emits exactly the oracle-legal
/// moves of men of kind KIND to square TO (that is the sub-list the disambiguation logic depends on; by
/// C01 the real list contains exactly these) plus one arbitrary other legal move to exercise the filter.
pub fn stub_generate(_g: &Game, moves: &mut MoveList) {
    let p = unsafe { CUR.unwrap() };
    let (kind, to, extra) = unsafe { (KIND, TO, EXTRA) };
    let us = p.us();
    let mut men = p.pcs[us][kind];
    let mut i = 0;
    while i < 4 {
        if men != 0 {
            let src = men.trailing_zeros() as u8;
            men &= men - 1;
            if let Some(m) = pos::legal_move(&p, src, to, 0) { moves.push(move_of(m.raw)); }
        }
        i += 1;
    }
    if extra != 0 { moves.push(move_of(extra)); }
}

/// the standard: no qualifier if no other man of the kind can legally go there; else the file if it tells
/// the mover apart from all of them; else the rank; else both
fn spec_class(p: &BPos, src: u8, to: u8, kind: usize) -> u8 {
    let us = p.us();
    let mut others = p.pcs[us][kind] & !(1u64 << src);
    let (mut any, mut same_file, mut same_rank) = (false, false, false);
    let mut i = 0;
    while i < 4 {
        if others != 0 {
            let o = others.trailing_zeros() as u8;
            others &= others - 1;
            if pos::legal_move(p, o, to, 0).is_some() {
                any = true;
                if o % 8 == src % 8 { same_file = true; }
                if o / 8 == src / 8 { same_rank = true; }
            }
        }
        i += 1;
    }
    if !any { 0 } else if !same_file { 1 } else if !same_rank { 2 } else { 3 }
}

/// officers (N, B, R, Q) of which the side to move has at most `max_kind`; any valid position, any legal officer move
/// case split: officer kind (1..4) x destination square (64 = any) x side (2 = any)
pub fn ambiguity(max_kind: u32, kind: usize, dst: u8, side: u8) {
    let p = pos::any_valid();
    if side < 2 { kani::assume(p.white_to_move == (side == 0)); }
    let (w, m) = step::any_legal(&p);
    kani::assume(m.kind >= N && m.kind <= Q && pos::raw_promo(w) == 0);
    kani::assume(m.kind == kind);
    if dst < 64 { kani::assume(pos::raw_dst(w) == dst); }
    let us = p.us();
    kani::assume(p.pcs[us][m.kind].count_ones() <= max_kind);
    // one arbitrary other legal move in the list (different destination or kind)
    let extra: u16 = kani::any();
    if extra != 0 {
        let em = pos::legal_move(&p, pos::raw_src(extra), pos::raw_dst(extra), pos::raw_promo(extra));
        kani::assume(em.is_some() && em.unwrap().raw == extra);
        kani::assume(em.unwrap().kind != m.kind || pos::raw_dst(extra) != pos::raw_dst(w));
    }
    #[cfg(test)] println!("REPLAY-CASE {{\"fen\":\"{}\",\"move\":\"{}\"}}", pos::fen_of(&p), pos::move_text(w));
    unsafe { CUR = Some(p); KIND = m.kind; TO = pos::raw_dst(w); EXTRA = extra; }
    let g = pos::game_of(&p);
    let got = san::verif_access::ambiguity(&g, move_of(w));
    let want = spec_class(&p, pos::raw_src(w), pos::raw_dst(w), m.kind);
    assert!(got == want);
    kani::cover!(want == 1);
    kani::cover!(want == 3);
    std::mem::forget(g);
}

/// check suffix: the produced text ends in '+' (or '#') exactly when the move gives check (castling included)
pub fn suffix(kind: usize, side: u8, max_men: u32) {
    let p = pos::any_valid();
    if side < 2 { kani::assume(p.white_to_move == (side == 0)); }
    kani::assume(p.occ().count_ones() <= max_men);
    let (w, m) = step::any_legal(&p);
    kani::assume(m.kind == kind);
    #[cfg(test)] println!("REPLAY-CASE {{\"fen\":\"{}\",\"move\":\"{}\"}}", pos::fen_of(&p), pos::move_text(w));
    unsafe { CUR = Some(p); KIND = m.kind; TO = pos::raw_dst(w); EXTRA = 0; }
    let g = pos::game_of(&p);
    let text = san::format_move(&g, move_of(w));
    let b = text.as_bytes();
    let us = p.us();
    let occ2 = pos::occ_all(&m.after);
    let gives_check = pos::attacked(&m.after, occ2, m.after[1 - us][K], us);
    let last = b[b.len() - 1];
    assert!((last == b'+' || last == b'#') == gives_check);
    kani::cover!(gives_check);
    kani::cover!(!gives_check);
    std::mem::forget(g);
    std::mem::forget(text);
}
