//! C20 — static exchange evaluation at threshold 0 on symbolic positions of few men.
use super::geom;
use super::pos::{self, BPos, B, K, N, P, Q, R};
use super::step;
use super::stubs::{move_of, raw_of};
use crate::engine::eval::Eval;
use crate::engine::see::see;

const VAL: [i32; 6] = [100, 300, 300, 500, 900, 10000];

/// independent swap-list SEE (gain list + backward minimax), least valuable attacker first, x-rays by
/// recomputing attackers on the shrinking occupancy, a king may not capture onto a defended square.
/// `max_depth` bounds the exchange length (number of men).
pub fn swap_list(p: &BPos, src: u8, dst: u8, promo: u8, max_depth: usize) -> bool {
    let us = p.us();
    let sb = 1u64 << src;
    let db = 1u64 << dst;
    let mut q = p.pcs;
    // value of what stands on dst
    let mut captured = 0i32;
    let mut k = 0;
    while k < 6 { if q[1 - us][k] & db != 0 { captured = VAL[k]; q[1 - us][k] &= !db; } k += 1; }
    let mut mover = 6usize;
    let mut k = 0;
    while k < 6 { if q[us][k] & sb != 0 { mover = k; q[us][k] &= !sb; } k += 1; }
    let on_square = if promo != 0 { promo as usize } else { mover };
    q[us][on_square] |= db;
    let mut gain = [0i32; 34];
    gain[0] = captured + if promo != 0 { VAL[promo as usize] - VAL[P] } else { 0 };
    let mut victim = VAL[on_square];
    let mut side = 1 - us;
    let mut d = 0usize;
    let mut step_i = 0usize;
    while step_i < max_depth {
        let occ = pos::occ_all(&q);
        let att = pos::attackers_of(&q, occ, db, side) & !db;
        if att == 0 { break; }
        // least valuable attacker
        let mut lva = 6usize;
        let mut k = 6;
        while k > 0 { k -= 1; if q[side][k] & att != 0 { lva = k; } }
        let from = (q[side][lva] & att) & (q[side][lva] & att).wrapping_neg(); // lowest bit
        if lva == K {
            // the king may not capture onto a square the other side still attacks (after the king leaves its square)
            let mut q2 = q;
            q2[side][K] &= !from;
            let occ2 = pos::occ_all(&q2);
            if pos::attackers_of(&q2, occ2, db, 1 - side) & !db != 0 { break; }
        }
        d += 1;
        gain[d] = victim - gain[d - 1];
        // the capturer replaces what stood on dst
        let mut k = 0;
        while k < 6 { q[1 - side][k] &= !db; k += 1; }
        q[side][lva] &= !from;
        q[side][lva] |= db;
        victim = VAL[lva];
        side = 1 - side;
        step_i += 1;
    }
    while d > 0 {
        let a = -gain[d - 1];
        let b = gain[d];
        gain[d - 1] = -(if a > b { a } else { b });
        d -= 1;
    }
    gain[0] >= 0
}

/// case split: target square of the capture (64 = any) and side to move (2 = any)
fn any_capture(p: &BPos, dst: u8, side: u8) -> (u16, pos::Made) {
    if side < 2 { kani::assume(p.white_to_move == (side == 0)); }
    let (w, m) = step::any_legal(p);
    kani::assume(m.capture && !m.ep);
    if dst < 64 { kani::assume(pos::raw_dst(w) == dst); }
    (w, m)
}

#[cfg(test)]
fn show(p: &BPos, w: u16) { println!("REPLAY-CASE {{\"fen\":\"{}\",\"move\":\"{}\"}}", pos::fen_of(p), pos::move_text(w)); }

/// (i) colour-swap invariance, (ii) undefended target => favourable, (iii) victim worth at least the capturer => favourable
pub fn basic(max_men: u32, dst: u8, side: u8) {
    let p = pos::any_valid();
    kani::assume(p.occ().count_ones() <= max_men);
    let (w, m) = any_capture(&p, dst, side);
    #[cfg(test)] show(&p, w);
    let g = pos::game_of(&p);
    let v = see(&g, move_of(w), Eval(0));
    // (i)
    let pm = pos::mirror(&p);
    let gm = pos::game_of(&pm);
    let vm = see(&gm, move_of(pos::mirror_raw(w)), Eval(0));
    assert!(v == vm);
    // (ii) nobody of the other colour attacks the target once the capture is made
    let us = p.us();
    let db = 1u64 << pos::raw_dst(w);
    let occ2 = pos::occ_all(&m.after);
    let defended = pos::attackers_of(&m.after, occ2, db, 1 - us) != 0;
    if !defended { assert!(v); }
    // (iii)
    let capturer = if pos::raw_promo(w) != 0 { P } else { m.kind };
    if VAL[m.captured_kind] >= VAL[capturer] { assert!(v); }
    kani::cover!(!v);
    kani::cover!(v && defended);
    std::mem::forget(g);
    std::mem::forget(gm);
}

/// (iv) agreement with the independent swap list where the choice among equally valued attackers cannot matter
/// (at most one man of each kind and colour, so the least valuable attacker is unique at every step)
pub fn versus_swap_list(max_men: u32, dst: u8, side: u8) {
    let p = pos::any_valid();
    kani::assume(p.occ().count_ones() <= max_men);
    let mut c = 0;
    while c < 2 { let mut k = 0; while k < 5 { kani::assume(p.pcs[c][k].count_ones() <= 1); k += 1; } c += 1; }
    // knights and bishops have equal value: allow only one of the two per colour
    kani::assume(p.pcs[0][N] == 0 || p.pcs[0][B] == 0);
    kani::assume(p.pcs[1][N] == 0 || p.pcs[1][B] == 0);
    let (w, m) = any_capture(&p, dst, side);
    #[cfg(test)] show(&p, w);
    let g = pos::game_of(&p);
    let v = see(&g, move_of(w), Eval(0));
    let o = swap_list(&p, pos::raw_src(w), pos::raw_dst(w), pos::raw_promo(w), max_men as usize);
    assert!(v == o);
    kani::cover!(!v);
    kani::cover!(v);
    std::mem::forget(g);
}
