//! C08 (kernels) — the arithmetic that turns scores into mate announcements, and the buffer
//! that carries the principal variation.
use crate::engine::eval::Eval;
use crate::engine::search::verif_access as sa;
use super::stubs::{move_of, raw_of};

/// mate_in(p) announces (p+1)/2 moves, mated_in(p) announces -(p/2); ordinary scores announce nothing.
/// Consistency with line length: "mate in N" for the winner <=> the line has 2N-1 plies,
/// "mated in N" for the loser <=> 2N plies.
#[kani::proof]
pub fn c08_mate_announcement() {
    let p: u8 = kani::any();
    let x: i16 = kani::any();
    #[cfg(test)] println!("REPLAY-CASE {{\"ply\":{},\"score\":{}}}", p, x);
    if p < 100 {
        let win = Eval::mate_in(p).is_mate_in_moves();
        let lose = Eval::mated_in(p).is_mate_in_moves();
        assert!(win == Some((p as i16 + 1) / 2));
        assert!(lose == Some(-(p as i16 / 2)));
        // winner delivers mate on an odd ply: line of p plies announces N with p == 2N-1
        if p % 2 == 1 { assert!(2 * win.unwrap() - 1 == p as i16); }
        // loser is mated after an even number of plies: p == 2|N|
        if p % 2 == 0 { assert!(-2 * lose.unwrap() == p as i16); }
    }
    if x >= -31900 && x <= 31900 {
        assert!(Eval(x).is_mate_in_moves().is_none());
    }
    // every announced mate corresponds to a mate score within 99 plies
    if x >= -32000 && x <= 32000 {
        if let Some(n) = Eval(x).is_mate_in_moves() {
            assert!(x > 31900 || x < -31900);
            if x > 0 { assert!(n == (32000 - x + 1) / 2 && n >= 0 && n <= 50); } else { assert!(n == (-32000 - x) / 2 && n <= 0 && n >= -50); }
        }
    }
    kani::cover!(p == 99);
    kani::cover!(x == 31901);
}

/// a mate score stored in the table at one ply and read back at another announces the right distance
#[kani::proof]
pub fn c08_mate_score_through_table() {
    let k: u8 = kani::any();  // mate at absolute ply k from the root of the storing search
    let p1: u8 = kani::any(); // ply at which the node stored it
    let p2: u8 = kani::any(); // ply at which a (later) node reads it
    kani::assume(k < 100 && p1 <= k);
    kani::assume((k - p1) as u16 + (p2 as u16) < 100);
    #[cfg(test)] println!("REPLAY-CASE {{\"k\":{},\"p1\":{},\"p2\":{}}}", k, p1, p2);
    let stored = Eval::mate_in(k).with_mate_distance_from_position(p1);
    assert!(stored == Eval::mate_in(k - p1));
    let read = stored.with_mate_distance_from_root(p2);
    assert!(read == Eval::mate_in(k - p1 + p2));
    let stored = Eval::mated_in(k).with_mate_distance_from_position(p1);
    assert!(stored == Eval::mated_in(k - p1));
    let read = stored.with_mate_distance_from_root(p2);
    assert!(read == Eval::mated_in(k - p1 + p2));
    kani::cover!(k == 99 && p1 == 50 && p2 == 40);
}

/// PrincipalVariation::push yields [mv] ++ child exactly, first() is mv, clear empties
#[kani::proof]
#[kani::unwind(8)]
pub fn c08_pv_push() {
    let n: usize = kani::any();
    kani::assume(n <= 5);
    let ms: [u16; 5] = [kani::any(), kani::any(), kani::any(), kani::any(), kani::any()];
    let mv: u16 = kani::any();
    kani::assume(mv != 0 && ms[0] != 0 && ms[1] != 0 && ms[2] != 0 && ms[3] != 0 && ms[4] != 0);
    #[cfg(test)] println!("REPLAY-CASE {{\"n\":{},\"mv\":{},\"child\":{:?}}}", n, mv, ms);
    let mut child = sa::PrincipalVariation::new();
    let mut i = 0;
    while i < n { child.append(move_of(ms[i])); i += 1; }
    assert!(child.len() as usize == n);
    let mut pv = sa::PrincipalVariation::new();
    // pre-existing content must not survive
    pv.append(move_of(ms[4]));
    pv.append(move_of(ms[3]));
    pv.push(move_of(mv), &child);
    assert!(pv.len() as usize == n + 1);
    assert!(pv.first().copied() == Some(move_of(mv)));
    let v: Vec<u16> = pv.clone().into_iter().map(raw_of).collect();
    assert!(v.len() == n + 1 && v[0] == mv);
    let mut i = 0;
    while i < n { assert!(v[i + 1] == ms[i]); i += 1; }
    pv.clear();
    assert!(pv.len() == 0 && pv.first().is_none());
    kani::cover!(n == 5);
    std::mem::forget(v);
}
