//! C15 — incrementally maintained evaluation state equals recomputation (real piece-square tables loaded).
use super::dump;
use super::pos::{self, BPos};
use super::step::{self, Pre};
use super::stubs::move_of;
use crate::engine::eval::{piece_square_tables, IncrementalEvalFields};

#[cfg(not(test))]
fn load() { unsafe { piece_square_tables::TABLES = dump::PST; } }
#[cfg(test)]
fn load() { crate::init(); }

fn same(a: &IncrementalEvalFields, b: &IncrementalEvalFields) -> bool {
    a.phase_value == b.phase_value && a.piece_square_tables == b.piece_square_tables
}

#[cfg(test)]
fn show(pre: &Pre, w: u16) { println!("REPLAY-CASE {{\"fen\":\"{}\",\"move\":\"{}\"}}", pos::fen_of(&pre.p), pos::move_text(w)); }

/// any valid position of reachable material, accumulators == recomputation before => == after make_move; undo restores
pub fn make_step(kind: usize, side: u8) {
    load();
    let (pre, mut g, w, m) = step::any_case(kind, side);
    kani::assume(pos::legal_material(&pre.p));
    #[cfg(test)] show(&pre, w);
    g.incremental_eval = IncrementalEvalFields::init(&g.board);
    let e0 = g.incremental_eval.clone();
    g.make_move(move_of(w));
    let fresh = IncrementalEvalFields::init(&g.board);
    assert!(same(&g.incremental_eval, &fresh));
    kani::cover!(m.capture || m.castle);
    g.undo_move();
    assert!(same(&g.incremental_eval, &e0));
    std::mem::forget(g);
}

#[kani::proof]
#[kani::unwind(66)]
pub fn c15_null_step() {
    load();
    let (pre, mut g) = step::any_pre();
    kani::assume(pos::legal_material(&pre.p));
    #[cfg(test)] show(&pre, 0);
    g.incremental_eval = IncrementalEvalFields::init(&g.board);
    let e0 = g.incremental_eval.clone();
    g.make_null_move();
    let fresh = IncrementalEvalFields::init(&g.board);
    assert!(same(&g.incremental_eval, &fresh));
    g.undo_null_move();
    assert!(same(&g.incremental_eval, &e0));
    kani::cover!(true);
    std::mem::forget(g);
}

// ---- unbounded material, no recomputation loops: the accumulators change by exactly the contributions of what changed ----
use crate::chess::square::Square;
use crate::engine::eval::{verif_access as ea, PhasedEval};

/// contributions (phase, packed piece-square value) of the (at most two) men of colour c, kind k on `bits`
fn contrib_bits(c: usize, k: usize, bits: u64) -> (i16, PhasedEval) {
    let mut ph = 0i16;
    let mut v = PhasedEval::ZERO;
    if bits != 0 {
        let lo = bits.trailing_zeros() as u8;
        let pc = crate::chess::piece::Piece::new(pos::player_of(c), pos::kind_of(k));
        ph += ea::piece_phase_value_contribution(pc.kind);
        v += piece_square_tables::piece_contributions(Square::from_index(lo), pc);
        let rest = bits & (bits - 1);
        if rest != 0 {
            let hi = rest.trailing_zeros() as u8;
            ph += ea::piece_phase_value_contribution(pc.kind);
            v += piece_square_tables::piece_contributions(Square::from_index(hi), pc);
        }
    }
    (ph, v)
}

/// any valid position, ANY starting accumulators: make_move changes them by exactly (+ men that appeared, - men that disappeared)
pub fn delta_make(kind: usize, side: u8) {
    load();
    let (pre, mut g, w, m) = step::any_case(kind, side);
    let ph0: i16 = kani::any();
    let (mg0, eg0): (i16, i16) = (kani::any(), kani::any());
    kani::assume(ph0 >= 0 && ph0 <= 200 && mg0 > -16000 && mg0 < 16000 && eg0 > -16000 && eg0 < 16000);
    g.incremental_eval = IncrementalEvalFields { phase_value: ph0, piece_square_tables: PhasedEval::new(mg0, eg0) };
    #[cfg(test)] show(&pre, w);
    let e0 = g.incremental_eval.clone();
    g.make_move(move_of(w));
    let after = m.after;
    let mut ph = ph0;
    let mut v = PhasedEval::new(mg0, eg0);
    let mut c = 0;
    while c < 2 {
        let mut k = 0;
        while k < 6 {
            let gone = pre.p.pcs[c][k] & !after[c][k];
            let came = after[c][k] & !pre.p.pcs[c][k];
            // a chess move changes at most two squares per colour and kind
            assert!(gone.count_ones() <= 2 && came.count_ones() <= 2);
            let (p1, v1) = contrib_bits(c, k, came);
            let (p2, v2) = contrib_bits(c, k, gone);
            ph = ph + p1 - p2;
            v = v + v1 - v2;
            k += 1;
        }
        c += 1;
    }
    assert!(g.incremental_eval.phase_value == ph);
    assert!(g.incremental_eval.piece_square_tables == v);
    kani::cover!(m.capture || m.castle || pos::raw_promo(w) != 0);
    g.undo_move();
    assert!(same(&g.incremental_eval, &e0));
    std::mem::forget(g);
}

/// the real recomputation is the sum of the contributions of all men (concrete table indices; any reachable material)
#[kani::proof]
#[kani::unwind(66)]
pub fn c15_init_is_sum() {
    load();
    let p = pos::any_valid();
    kani::assume(pos::legal_material(&p));
    #[cfg(test)] println!("REPLAY-CASE {{\"fen\":\"{}\"}}", pos::fen_of(&p));
    let g = pos::game_of(&p);
    let got = IncrementalEvalFields::init(&g.board);
    let mut ph = 0i16;
    let mut v = PhasedEval::ZERO;
    let mut c = 0;
    while c < 2 {
        let mut k = 0;
        while k < 6 {
            let mut sq = 0u8;
            while sq < 64 {
                if p.pcs[c][k] & (1u64 << sq) != 0 {
                    let pc = crate::chess::piece::Piece::new(pos::player_of(c), pos::kind_of(k));
                    ph += ea::piece_phase_value_contribution(pc.kind);
                    v += piece_square_tables::piece_contributions(Square::from_index(sq), pc);
                }
                sq += 1;
            }
            k += 1;
        }
        c += 1;
    }
    assert!(got.phase_value == ph && got.piece_square_tables == v);
    kani::cover!(ph > 24);
    std::mem::forget(g);
}

/// a null move leaves the accumulators alone; its take-back restores them
#[kani::proof]
pub fn c15_delta_null() {
    load();
    let (pre, mut g) = step::any_pre();
    let ph0: i16 = kani::any();
    let (mg0, eg0): (i16, i16) = (kani::any(), kani::any());
    kani::assume(mg0 > -16000 && mg0 < 16000 && eg0 > -16000 && eg0 < 16000);
    g.incremental_eval = IncrementalEvalFields { phase_value: ph0, piece_square_tables: PhasedEval::new(mg0, eg0) };
    #[cfg(test)] show(&pre, 0);
    let e0 = g.incremental_eval.clone();
    g.make_null_move();
    assert!(same(&g.incremental_eval, &e0));
    g.undo_null_move();
    assert!(same(&g.incremental_eval, &e0));
    kani::cover!(true);
    std::mem::forget(g);
}

/// quick complement to c15_init_is_sum: the real init() on CONCRETE placements equals the sum of the contributions of the men standing there
pub fn init_on_placement(pcs: [[u64; 6]; 2]) {
    load();
    let p = BPos { pcs, white_to_move: true, rights: [[false; 2]; 2], ep: 64 };
    #[cfg(test)] println!("REPLAY-CASE {{\"fen\":\"{}\"}}", pos::fen_of(&p));
    let g = pos::game_of(&p);
    let got = IncrementalEvalFields::init(&g.board);
    let mut ph = 0i16;
    let mut v = PhasedEval::ZERO;
    let mut c = 0;
    while c < 2 {
        let mut k = 0;
        while k < 6 {
            let mut sq = 0u8;
            while sq < 64 {
                if p.pcs[c][k] & (1u64 << sq) != 0 {
                    let pc = crate::chess::piece::Piece::new(pos::player_of(c), pos::kind_of(k));
                    ph += ea::piece_phase_value_contribution(pc.kind);
                    v += piece_square_tables::piece_contributions(Square::from_index(sq), pc);
                }
                sq += 1;
            }
            k += 1;
        }
        c += 1;
    }
    assert!(got.phase_value == ph && got.piece_square_tables == v);
    // the statement's game phase: 1 per minor, 2 per rook, 4 per queen
    let cnt = |k: usize| (p.pcs[0][k] | p.pcs[1][k]).count_ones() as i16;
    assert!(ph == cnt(1) + cnt(2) + 2 * cnt(3) + 4 * cnt(4));
    kani::cover!(true);
    std::mem::forget(g);
}
