//! C15 — incrementally maintained evaluation state equals recomputation (real piece-square tables loaded).
use super::dump;
use super::pos::{self, BPos};
use super::step::{self, Pre};
use super::stubs::move_of;
use crate::engine::eval::{piece_square_tables, IncrementalEvalFields};

#[cfg(not(test))]
fn load() { unsafe { piece_square_tables::TABLES = dump::PST; } }
#[cfg(test)]
fn load() { crate::init(); }

fn same(a: &IncrementalEvalFields, b: &IncrementalEvalFields) -> bool {
    a.phase_value == b.phase_value && a.piece_square_tables == b.piece_square_tables
}

#[cfg(test)]
fn show(pre: &Pre, w: u16) { println!("REPLAY-CASE {{\"fen\":\"{}\",\"move\":\"{}\"}}", pos::fen_of(&pre.p), pos::move_text(w)); }

/// any valid position of reachable material, accumulators == recomputation before => == after make_move; undo restores
pub fn make_step(kind: usize, side: u8) {
    load();
    let (pre, mut g, w, m) = step::any_case(kind, side);
    kani::assume(pos::legal_material(&pre.p));
    #[cfg(test)] show(&pre, w);
    g.incremental_eval = IncrementalEvalFields::init(&g.board);
    let e0 = g.incremental_eval.clone();
    g.make_move(move_of(w));
    let fresh = IncrementalEvalFields::init(&g.board);
    assert!(same(&g.incremental_eval, &fresh));
    kani::cover!(m.capture || m.castle);
    g.undo_move();
    assert!(same(&g.incremental_eval, &e0));
    std::mem::forget(g);
}

#[kani::proof]
#[kani::unwind(66)]
pub fn c15_null_step() {
    load();
    let (pre, mut g) = step::any_pre();
    kani::assume(pos::legal_material(&pre.p));
    #[cfg(test)] show(&pre, 0);
    g.incremental_eval = IncrementalEvalFields::init(&g.board);
    let e0 = g.incremental_eval.clone();
    g.make_null_move();
    let fresh = IncrementalEvalFields::init(&g.board);
    assert!(same(&g.incremental_eval, &fresh));
    g.undo_null_move();
    assert!(same(&g.incremental_eval, &e0));
    kani::cover!(true);
    std::mem::forget(g);
}
