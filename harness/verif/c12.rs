//! C12 (kernels) — ucinewgame means a fresh engine: PersistentState::reset == fresh state;
//! a search context starts with empty killers/counter-moves; under `infinite` (depth-limited
//! searches) the time strategy never reads the wall clock.
use super::pos::{self, BPos};
use crate::chess::zobrist::ZobristHash;
use crate::engine::eval::Eval;
use crate::engine::options::EngineOptions;
use crate::engine::search::time_control::TimeStrategy;
use crate::engine::search::transposition::{NodeBound, SearchTranspositionTableData};
use crate::engine::search::verif_access as sa;
use crate::engine::search::{SearchContext, SearchRestrictions, TimeControl};
use crate::engine::transposition_table::verif_access as tta;
use crate::engine::transposition_table::{TranspositionTable, TranspositionTableEntry};
use super::stubs::move_of;
use std::time::{Duration, Instant};

type D = SearchTranspositionTableData;
type E = TranspositionTableEntry<D>;

pub fn stub_now() -> Instant { unsafe { core::mem::zeroed() } }
pub fn stub_elapsed(_i: &Instant) -> Duration { panic!("wall clock read in a depth-limited (infinite) search") }

fn any_data() -> D {
    let b: u8 = kani::any();
    kani::assume(b < 3);
    let mv: u16 = kani::any();
    D { bound: match b { 0 => NodeBound::Exact, 1 => NodeBound::Upper, _ => NodeBound::Lower }, eval: Eval(kani::any()), depth: kani::any(), age: kani::any(),
        best_move: if mv == 0 { None } else { Some(move_of(mv)) } }
}

/// after reset(), whatever was searched before, tables equal those of PersistentState::new
#[kani::proof]
#[kani::unwind(66)]
pub fn c12_reset_is_fresh() {
    let n: usize = 3;
    let mut data: Vec<Option<E>> = Vec::with_capacity(n);
    let mut occ = 0;
    let mut i = 0;
    while i < n {
        if kani::any() { data.push(Some(E { key: ZobristHash(kani::any()), data: any_data() })); occ += 1; } else { data.push(None); }
        i += 1;
    }
    let tt = tta::from_parts(data, kani::any(), occ, 1);
    let history = sa::tables::history_any();
    let mut ps = sa::persistent_from(tt, history);
    #[cfg(test)] println!("REPLAY-CASE {{\"occupied\":{}}}", occ);
    ps.reset();
    assert!(ps.tt.occupied == 0 && ps.tt.generation == 0 && tta::len(&ps.tt) == n);
    let mut i = 0;
    while i < n { assert!(tta::slot(&ps.tt, i).is_none()); i += 1; }
    let (p, a, b): (usize, usize, usize) = (kani::any(), kani::any(), kani::any());
    kani::assume(p < 2 && a < 64 && b < 64);
    assert!(sa::tables::history_cell(&ps.history_table, p, a, b) == 0);
    // a fresh table for comparison
    let fresh = sa::HistoryTable::new();
    assert!(sa::tables::history_cell(&fresh, p, a, b) == 0);
    kani::cover!(occ == 3);
    std::mem::forget(ps);
    std::mem::forget(fresh);
}

fn two_kings() -> BPos {
    let mut pcs = [[0u64; 6]; 2];
    pcs[0][5] = 1 << 4;
    pcs[1][5] = 1 << 60;
    BPos { pcs, white_to_move: true, rights: [[false; 2]; 2], ep: 64 }
}

/// every search starts with empty killer and counter-move tables, zero counters; with
/// TimeControl::Infinite the stop logic never reads the clock and only obeys the stop flag.
#[kani::proof]
#[kani::stub(std::time::Instant::now, stub_now)]
#[kani::stub(std::time::Instant::elapsed, stub_elapsed)]
pub fn c12_context_fresh_and_clock_free() {
    let game = pos::game_of(&two_kings());
    let options = EngineOptions { hash_size: 1, threads: 1, move_overhead: 0, syzygy_path: None };
    let restrictions = SearchRestrictions { depth: kani::any() };
    let (mut ts, ctl) = TimeStrategy::new(&game, &TimeControl::Infinite, &options);
    let nodes: u64 = kani::any();
    kani::assume(nodes < u64::MAX - 20000);
    let depth: u8 = kani::any();
    let stop_first: bool = kani::any();
    #[cfg(test)] println!("REPLAY-CASE {{\"nodes\":{},\"depth\":{},\"stop\":{}}}", nodes, depth, stop_first);
    if stop_first { ctl.stop(); }
    let start = ts.should_start_new_search(depth);
    let stop = ts.should_stop(nodes);
    assert!(start == (depth == 1 || !stop_first));
    assert!(stop == (stop_first && nodes >= 10000));
    let tt: TranspositionTable<D> = tta::from_parts(Vec::new(), 0, 0, 0);
    let mut ps = sa::persistent_from(tt, sa::HistoryTable::new());
    let ctx = SearchContext::new(&mut ps, &mut ts, &options, &restrictions);
    let ply: u8 = kani::any();
    kani::assume((ply as usize) < sa::MAX_SEARCH_DEPTH_SIZE);
    assert!(ctx.killer_moves.get_0(ply).is_none() && ctx.killer_moves.get_1(ply).is_none());
    let (p, a, b): (usize, usize, usize) = (kani::any(), kani::any(), kani::any());
    kani::assume(p < 2 && a < 64 && b < 64);
    assert!(sa::tables::counter_raw(&ctx.countermove_table, p, a, b).is_none());
    assert!(sa::ctx_counters(&ctx) == (0, 0, 0));
    kani::cover!(stop_first && nodes >= 10000);
    std::mem::forget(ctx);
    std::mem::forget(ps);
    std::mem::forget(ts);
    std::mem::forget(ctl);
    std::mem::forget(game);
}

// ---------------------------------------------------------------------------------------------
// command level: the real `Uci::execute(ucinewgame)` from an arbitrary session state
// ---------------------------------------------------------------------------------------------
use crate::chess::game::Game;
use crate::engine::uci::commands::UciCommand;
use crate::engine::uci::verif_access as ua;

/// see c17.rs: Kani 0.68 cannot compile the toolchain's `catch_unwind` intrinsic (reached from the `go` branch's JoinHandle drop glue)
pub unsafe fn stub_catch_unwind<T>(try_fn: fn(*mut T), data: *mut T, _catch_fn: fn(*mut T, *mut u8)) -> bool { try_fn(data); false }
/// thread signalling (Mutex + Condvar::notify_all = futex system call) is the environment, not the subject
pub fn stub_latch_reset(_l: &crate::engine::util::sync::LockLatch) {}
/// contract stub of the FEN reader for the start position (C06's subject): the start position, no history
pub fn stub_from_fen(_fen: &str) -> Result<Game, String> { Ok(pos::game_of(&start_pos())) }
fn start_pos() -> BPos {
    let pcs = [[0xff00, 0x42, 0x24, 0x81, 0x08, 0x10],
               [0xff00 << 40, 0x42 << 56, 0x24 << 56, 0x81 << 56, 0x08 << 56, 0x10 << 56]];
    BPos { pcs, white_to_move: true, rights: [[true; 2]; 2], ep: 64 }
}

/// after `ucinewgame`, whatever game was held and whatever the tables contained, the engine holds the start position and tables equal
/// to those of a freshly started engine (entries, generation, occupancy, history scores)
#[kani::proof]
#[kani::unwind(66)]
#[kani::stub(std::intrinsics::catch_unwind, stub_catch_unwind)]
#[kani::stub(crate::engine::util::sync::LockLatch::reset, stub_latch_reset)]
#[kani::stub(crate::chess::game::Game::from_fen, stub_from_fen)]
pub fn c12_ucinewgame_cmd() {
    let n: usize = 3;
    let mut data: Vec<Option<E>> = Vec::with_capacity(n);
    let mut occ = 0;
    let mut i = 0;
    while i < n {
        if kani::any() { data.push(Some(E { key: ZobristHash(kani::any()), data: any_data() })); occ += 1; } else { data.push(None); }
        i += 1;
    }
    let tt = tta::from_parts(data, kani::any(), occ, 1);
    // the held game: not the start position, arbitrary counters
    let held_pos = two_kings();
    let mut held = pos::game_of(&held_pos);
    held.halfmove_clock = kani::any();
    held.plies = kani::any();
    #[cfg(test)] println!("REPLAY-CASE {{\"occupied\":{},\"held\":\"{}\"}}", occ, pos::fen_of(&held_pos));
    let mut uci = ua::mk_uci(held);
    // the session's tables are put in place (no by-value move of the 8192-cell history table): arbitrary transposition table, and
    // one arbitrary history cell with an arbitrary score - which cell is symbolic, so every cell is covered
    let (hp, hmv, hv): (bool, u16, i32) = (kani::any(), kani::any(), kani::any());
    kani::assume(hmv != 0);
    ua::with_state(&uci, |ps| {
        let old = core::mem::replace(&mut ps.tt, tt);
        core::mem::forget(old);
        sa::tables::history_set(&mut ps.history_table, if hp { crate::chess::player::Player::White } else { crate::chess::player::Player::Black }, move_of(hmv), hv);
    });
    let ok = ua::execute_ok(&mut uci, &UciCommand::UciNewGame);
    assert!(ok);
    let g = ua::game(&uci);
    assert!(pos::bpos_of_bitboards(g) == start_pos() && g.halfmove_clock == 0 && g.history.len() == 0);
    let (p, a, b): (usize, usize, usize) = (kani::any(), kani::any(), kani::any());
    kani::assume(p < 2 && a < 64 && b < 64);
    let fresh = ua::with_state(&uci, |ps| {
        let mut empty = ps.tt.occupied == 0 && ps.tt.generation == 0 && tta::len(&ps.tt) == 3;
        let mut i = 0;
        while i < 3 { empty = empty && tta::slot(&ps.tt, i).is_none(); i += 1; }
        empty && sa::tables::history_cell(&ps.history_table, p, a, b) == 0
    });
    assert!(fresh);
    kani::cover!(occ == 3);
    std::mem::forget(uci);
}
