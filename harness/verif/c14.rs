//! C14 — time allocation: TimeStrategy::new as compiled (Duration arithmetic incl. IEEE-754 f32
//! mul_f32, bit-precise in CBMC). The clock (Instant::now) is replaced by a stub.
use super::pos::{self, BPos};
use crate::engine::options::EngineOptions;
use crate::engine::search::time_control::verif_access as ta;
use crate::engine::search::time_control::TimeStrategy;
use crate::engine::search::{Clocks, TimeControl};
use std::time::{Duration, Instant};

pub fn stub_now() -> Instant { unsafe { core::mem::zeroed() } }

// ---- contract of Duration::mul_f32, proven on the real std code by the c14_lemma_* harnesses ----
// all comparisons are done on u64 nanoseconds computed by ONE constant multiplication (secs*1e9+nanos);
// no u128, no division or modulo of symbolic values (those stall the bit-blaster).
static mut LOG_D: [Duration; 8] = [Duration::ZERO; 8];
static mut LOG_F: [u32; 8] = [0; 8];
static mut LOG_R: [Duration; 8] = [Duration::ZERO; 8];
static mut NLOG: usize = 0;
static mut HALF_D: Duration = Duration::ZERO; // argument / result of the FIRST call with factor 0.5 (the player's clock)
static mut HALF_R: Duration = Duration::ZERO;
static mut HALF_CALLS: usize = 0;
pub const SLACK_SHIFT: u32 = super::gen::C14_SLACK_SHIFT;
pub const BOUND_S: u64 = super::gen::C14_BOUND_S;

pub fn ns_of(d: Duration) -> u64 { d.as_secs() * 1_000_000_000 + d.subsec_nanos() as u64 }
/// the stated meaning of "at most half": 2r <= d + d*2^-SLACK_SHIFT + 2ns (f32 seconds have a 24-bit mantissa)
pub fn at_most_half(r_ns: u64, d_ns: u64) -> bool { 2 * r_ns <= d_ns + (d_ns >> SLACK_SHIFT) + 2 }

/// Contract of Duration::mul_f32 used while executing TimeStrategy::new:
/// (A) factor 0.5, duration <= BOUND_S s: at_most_half(result, d)            - proven on the real code by c14_lemma_half;
///     here the call is only RECORDED (argument and result), the harness relates the engine's limits to it
/// (B) same duration, factors 0.75 and 3.0: result(0.75) <= result(3.0)      - proven by c14_lemma_monotone, assumed here
/// (C) no panic for durations <= 2*BOUND_S+1 s and the four factors used     - proven by the lemmas, asserted here as precondition
/// otherwise the result is arbitrary.
pub fn stub_mul_f32(d: Duration, f: f32) -> Duration {
    assert!(f == 0.5 || f == 0.033 || f == 0.75 || f == 3.0);
    assert!(d.as_secs() <= 2 * BOUND_S + 1);
    let rs: u64 = kani::any();
    let rn: u32 = kani::any();
    kani::assume(rs <= 8 * BOUND_S + 8 && rn < 1_000_000_000);
    let r = Duration::new(rs, rn);
    // (D) factors below one do not lengthen, factor 3.0 at most quadruples                    [c14_lemma_size]
    if f == 3.0 { kani::assume(r <= d + d + d + d); } else { kani::assume(r <= d); }
    unsafe {
        if f == 0.5 {
            assert!(d.as_secs() <= BOUND_S);
            if HALF_CALLS == 0 { HALF_D = d; HALF_R = r; }
            HALF_CALLS += 1;
        }
        let mut i = 0;
        while i < NLOG {
            if LOG_D[i] == d {
                if LOG_F[i] == 0.75f32.to_bits() && f == 3.0 { kani::assume(LOG_R[i] <= r); }
                if LOG_F[i] == 3.0f32.to_bits() && f == 0.75 { kani::assume(r <= LOG_R[i]); }
            }
            i += 1;
        }
        assert!(NLOG < 8);
        LOG_D[NLOG] = d; LOG_F[NLOG] = f.to_bits(); LOG_R[NLOG] = r; NLOG += 1;
    }
    r
}

fn any_duration(max_s: u64) -> Duration {
    let s: u64 = kani::any();
    let n: u32 = kani::any();
    kani::assume(s <= max_s && n < 1_000_000_000);
    Duration::new(s, n)
}

/// Lemma A on the real std::time::Duration::mul_f32 (any nanosecond-resolution duration <= BOUND_S)
#[kani::proof]
pub fn c14_lemma_half() {
    let d = any_duration(BOUND_S);
    #[cfg(test)] println!("REPLAY-CASE {{\"secs\":{},\"nanos\":{}}}", d.as_secs(), d.subsec_nanos());
    let r = d.mul_f32(0.5);
    assert!(at_most_half(ns_of(r), ns_of(d)));
    kani::cover!(d.as_secs() > 1000);
}

/// Lemma D on the real mul_f32: size bounds that keep every intermediate inside the contract's domain
#[kani::proof]
pub fn c14_lemma_size() {
    let d = any_duration(2 * BOUND_S + 1);
    #[cfg(test)] println!("REPLAY-CASE {{\"secs\":{},\"nanos\":{}}}", d.as_secs(), d.subsec_nanos());
    assert!(d.mul_f32(0.033) <= d);
    assert!(d.mul_f32(0.5) <= d);
    assert!(d.mul_f32(0.75) <= d);
    assert!(d.mul_f32(3.0) <= d + d + d + d);
    kani::cover!(d.as_secs() > 1000);
}

/// Lemma B (+ no panic for 0.75 / 3.0 / 0.033) on the real mul_f32
#[kani::proof]
pub fn c14_lemma_monotone() {
    let d = any_duration(2 * BOUND_S + 1);
    #[cfg(test)] println!("REPLAY-CASE {{\"secs\":{},\"nanos\":{}}}", d.as_secs(), d.subsec_nanos());
    assert!(d.mul_f32(0.75) <= d.mul_f32(3.0));
    let _ = d.mul_f32(0.033);
    kani::cover!(d.as_secs() > 1000);
}

fn two_kings(white_to_move: bool) -> BPos {
    let mut pcs = [[0u64; 6]; 2];
    pcs[0][5] = 1 << 4;
    pcs[1][5] = 1 << 60;
    BPos { pcs, white_to_move, rights: [[false; 2]; 2], ep: 64 }
}

fn clocks_case(rem: Duration, inc: Duration, mtg: Option<u32>, overhead: usize, white: bool, other: Option<Duration>, inc_given: bool) {
    #[cfg(test)] println!("REPLAY-CASE {{\"remaining\":\"{:?}\",\"increment\":\"{:?}\",\"moves_to_go\":{:?},\"overhead_ms\":{},\"white\":{}}}", rem, inc, mtg, overhead, white);
    let game = pos::game_of(&two_kings(white));
    let mine = Some(rem);
    let incd = if inc_given { Some(inc) } else { None };
    let clocks = if white {
        Clocks { white_clock: mine, black_clock: other, white_increment: incd, black_increment: None, moves_to_go: mtg }
    } else {
        Clocks { white_clock: other, black_clock: mine, white_increment: None, black_increment: incd, moves_to_go: mtg }
    };
    let options = EngineOptions { hash_size: 1, threads: 1, move_overhead: overhead, syzygy_path: None };
    let tc = TimeControl::Clocks(clocks);
    let (ts, ctl) = TimeStrategy::new(&game, &tc, &options);
    let (soft, hard) = ta::stops(&ts);
    assert!(soft <= hard);
    // oracle: at most half of the remaining time after overhead (overhead <= remaining/2 by precondition)
    let avail = rem - Duration::from_millis(overhead as u64);
    #[cfg(not(test))]
    unsafe {
        assert!(HALF_CALLS >= 1);
        assert!(HALF_D == avail);      // the first x0.5 is taken of exactly "remaining after overhead"
        assert!(hard <= HALF_R);       // and Lemma A bounds that product by half (+ f32 slack) of its argument
    }
    // native replay runs the real mul_f32: the end-to-end statement itself, on the solver's tuple and - because the solver's
    // tuple lives in the contract world, where huge clocks hide millisecond effects behind the f32 slack - on the same tuple
    // with the clock scaled down to GUI-sized values (the solver's verdict says the allocation logic is off; these find a witness)
    #[cfg(test)]
    {
        assert!(at_most_half(ns_of(hard), ns_of(avail)));
        let ovh = Duration::from_millis(overhead as u64);
        for rem_ms in [2 * overhead as u64, 2 * overhead as u64 + 1, 1000, 3000, 40, 60_000, 600_000] {
            for inc_ms in [inc.as_millis() as u64, 0, 2000, 5000] {
                let r = Duration::from_millis(rem_ms);
                if ovh > r || ovh > r - ovh { continue; }
                let i = Duration::from_millis(inc_ms);
                let c2 = if white {
                    Clocks { white_clock: Some(r), black_clock: other, white_increment: if inc_given { Some(i) } else { None }, black_increment: None, moves_to_go: mtg }
                } else {
                    Clocks { white_clock: other, black_clock: Some(r), white_increment: None, black_increment: if inc_given { Some(i) } else { None }, moves_to_go: mtg }
                };
                let (ts2, _c2) = TimeStrategy::new(&game, &TimeControl::Clocks(c2), &options);
                let (s2, h2) = ta::stops(&ts2);
                if !(s2 <= h2 && at_most_half(ns_of(h2), ns_of(r - ovh))) {
                    println!("REPLAY-CASE {{\"remaining_ms\":{},\"increment_ms\":{},\"moves_to_go\":{:?},\"overhead_ms\":{},\"white\":{},\"soft\":\"{:?}\",\"hard\":\"{:?}\"}}", rem_ms, inc_ms, mtg, overhead, white, s2, h2);
                    panic!("time allocation violates the property for a scaled-down clock");
                }
            }
        }
    }
    std::mem::forget(ts);
    std::mem::forget(ctl);
    std::mem::forget(game);
}

/// clock values as a GUI sends them: whole milliseconds
fn any_ms_duration(max_s: u64) -> Duration {
    let s: u64 = kani::any();
    let ms: u32 = kani::any();
    kani::assume(s <= max_s && ms < 1000);
    Duration::new(s, ms * 1_000_000)
}

fn clocks_harness(with_mtg: bool) {
    let rem = any_ms_duration(BOUND_S - 1);
    let inc = any_ms_duration(BOUND_S - 1);
    let overhead: usize = kani::any();
    let white: bool = kani::any();
    let inc_given: bool = kani::any();
    let other_given: bool = kani::any();
    let mtg: u32 = kani::any();
    kani::assume(mtg >= 1);
    kani::assume(overhead <= 1000);
    // overhead of at most half the remaining time
    let ovh = Duration::from_millis(overhead as u64);
    kani::assume(ovh <= rem && ovh <= rem - ovh);
    kani::cover!(rem.as_secs() > 1000 && inc.as_secs() > 0 && overhead > 0);
    clocks_case(rem, inc, if with_mtg { Some(mtg) } else { None }, overhead, white, if other_given { Some(inc) } else { None }, inc_given);
}

/// documented contract of Duration / u32 (std): panics iff the divisor is 0, otherwise some duration <= self.
/// (std's own 64-bit division carries are not the engine's code and stall the bit-blaster)
pub fn stub_checked_div(d: Duration, rhs: u32) -> Option<Duration> {
    if rhs == 0 { return None; }
    let rs: u64 = kani::any();
    let rn: u32 = kani::any();
    kani::assume(rn < 1_000_000_000);
    let r = Duration::new(rs, rn);
    kani::assume(r <= d);
    Some(r)
}

/// end-to-end on a SMALL domain with the REAL Duration::mul_f32 (no contract stub): clocks up to `max_s` seconds.
/// Cross-checks the contract composition, and yields counterexamples that replay natively.
pub fn clocks_real_small(max_s: u64, with_mtg: bool) {
    let rem = any_ms_duration(max_s);
    let inc = any_ms_duration(max_s);
    let overhead: usize = kani::any();
    let white: bool = kani::any();
    let inc_given: bool = kani::any();
    let mtg: u32 = kani::any();
    kani::assume(mtg >= 1 && mtg <= 64);
    kani::assume(overhead <= 1000);
    let ovh = Duration::from_millis(overhead as u64);
    kani::assume(ovh <= rem && ovh <= rem - ovh);
    #[cfg(test)] println!("REPLAY-CASE {{\"remaining\":\"{:?}\",\"increment\":\"{:?}\",\"moves_to_go\":{},\"with_mtg\":{},\"overhead_ms\":{},\"white\":{}}}", rem, inc, mtg, with_mtg, overhead, white);
    let game = pos::game_of(&two_kings(white));
    let incd = if inc_given { Some(inc) } else { None };
    let m = if with_mtg { Some(mtg) } else { None };
    let clocks = if white {
        Clocks { white_clock: Some(rem), black_clock: None, white_increment: incd, black_increment: None, moves_to_go: m }
    } else {
        Clocks { white_clock: None, black_clock: Some(rem), white_increment: None, black_increment: incd, moves_to_go: m }
    };
    let options = EngineOptions { hash_size: 1, threads: 1, move_overhead: overhead, syzygy_path: None };
    let (ts, ctl) = TimeStrategy::new(&game, &TimeControl::Clocks(clocks), &options);
    let (soft, hard) = ta::stops(&ts);
    assert!(soft <= hard);
    assert!(at_most_half(ns_of(hard), ns_of(rem - ovh)));
    kani::cover!(rem.as_secs() > 10 && inc.as_secs() > 0 && overhead > 0);
    std::mem::forget(ts);
    std::mem::forget(ctl);
    std::mem::forget(game);
}

/// sudden death / increment: no moves-to-go
#[kani::proof]
#[kani::unwind(9)]
#[kani::stub(std::time::Instant::now, stub_now)]
#[kani::stub(std::time::Duration::mul_f32, stub_mul_f32)]
pub fn c14_clocks_no_mtg() { clocks_harness(false); }

/// classical: moves-to-go of at least one
#[kani::proof]
#[kani::unwind(9)]
#[kani::stub(std::time::Instant::now, stub_now)]
#[kani::stub(std::time::Duration::mul_f32, stub_mul_f32)]
#[kani::stub(std::time::Duration::checked_div, stub_checked_div)]
pub fn c14_clocks_mtg() { clocks_harness(true); }

/// fixed move time is used as given; infinite has no limits
#[kani::proof]
#[kani::stub(std::time::Instant::now, stub_now)]
pub fn c14_exact_and_infinite() {
    let ms: u64 = kani::any();
    let white: bool = kani::any();
    let overhead: usize = kani::any();
    kani::assume(overhead <= 1000);
    #[cfg(test)] println!("REPLAY-CASE {{\"movetime_ms\":{},\"overhead\":{}}}", ms, overhead);
    let game = pos::game_of(&two_kings(white));
    let options = EngineOptions { hash_size: 1, threads: 1, move_overhead: overhead, syzygy_path: None };
    let t = Duration::from_millis(ms);
    let (ts, ctl) = TimeStrategy::new(&game, &TimeControl::ExactTime(t), &options);
    let (soft, hard) = ta::stops(&ts);
    assert!(soft == t && hard == t);
    std::mem::forget(ts);
    std::mem::forget(ctl);
    let (ts, ctl) = TimeStrategy::new(&game, &TimeControl::Infinite, &options);
    let (soft, hard) = ta::stops(&ts);
    assert!(soft == Duration::ZERO && hard == Duration::ZERO);
    kani::cover!(ms > 5);
    std::mem::forget(ts);
    std::mem::forget(ctl);
    std::mem::forget(game);
}

