//! C14 — time allocation: TimeStrategy::new as compiled (Duration arithmetic incl. IEEE-754 f32
//! mul_f32, bit-precise in CBMC). The clock (Instant::now) is replaced by a stub.
use super::pos::{self, BPos};
use crate::engine::options::EngineOptions;
use crate::engine::search::time_control::verif_access as ta;
use crate::engine::search::time_control::TimeStrategy;
use crate::engine::search::{Clocks, TimeControl};
use std::time::{Duration, Instant};

pub fn stub_now() -> Instant { unsafe { core::mem::zeroed() } }

fn two_kings(white_to_move: bool) -> BPos {
    let mut pcs = [[0u64; 6]; 2];
    pcs[0][5] = 1 << 4;
    pcs[1][5] = 1 << 60;
    BPos { pcs, white_to_move, rights: [[false; 2]; 2], ep: 64 }
}

fn clocks_case(rem_ms: u64, inc_ms: u64, mtg: Option<u32>, overhead: usize, white: bool, other_ms: Option<u64>, inc_given: bool) {
    #[cfg(test)] println!("REPLAY-CASE {{\"remaining_ms\":{},\"increment_ms\":{},\"moves_to_go\":{:?},\"overhead_ms\":{},\"white\":{}}}", rem_ms, inc_ms, mtg, overhead, white);
    let game = pos::game_of(&two_kings(white));
    let mine = Some(Duration::from_millis(rem_ms));
    let other = other_ms.map(Duration::from_millis);
    let inc = if inc_given { Some(Duration::from_millis(inc_ms)) } else { None };
    let clocks = if white {
        Clocks { white_clock: mine, black_clock: other, white_increment: inc, black_increment: None, moves_to_go: mtg }
    } else {
        Clocks { white_clock: other, black_clock: mine, white_increment: None, black_increment: inc, moves_to_go: mtg }
    };
    let options = EngineOptions { hash_size: 1, threads: 1, move_overhead: overhead, syzygy_path: None };
    let tc = TimeControl::Clocks(clocks);
    let (ts, ctl) = TimeStrategy::new(&game, &tc, &options);
    let (soft, hard) = ta::stops(&ts);
    assert!(soft <= hard);
    // oracle: half of the remaining time after overhead, with the engine's own f32 resolution as slack:
    // mul_f32 goes through f32 seconds (24-bit mantissa), so "half" carries a relative error of a few 2^-24.
    let avail_ns: u128 = (rem_ms as u128 - overhead as u128) * 1_000_000;
    let bound = avail_ns / 2 + (avail_ns >> 21) + 1;
    assert!(hard.as_nanos() <= bound);
    std::mem::forget(ts);
    std::mem::forget(ctl);
    std::mem::forget(game);
}

/// sudden death / increment: no moves-to-go
#[kani::proof]
#[kani::stub(std::time::Instant::now, stub_now)]
pub fn c14_clocks_no_mtg() {
    let rem_ms: u64 = kani::any();
    let inc_ms: u64 = kani::any();
    let overhead: usize = kani::any();
    let white: bool = kani::any();
    let inc_given: bool = kani::any();
    kani::assume(rem_ms <= BOUND_MS && inc_ms <= BOUND_MS);
    kani::assume(overhead <= 1000 && (overhead as u64) * 2 <= rem_ms);
    kani::cover!(rem_ms > 1_000_000 && inc_ms > 0);
    clocks_case(rem_ms, inc_ms, None, overhead, white, None, inc_given);
}

/// classical: moves-to-go of at least one
#[kani::proof]
#[kani::stub(std::time::Instant::now, stub_now)]
pub fn c14_clocks_mtg() {
    let rem_ms: u64 = kani::any();
    let inc_ms: u64 = kani::any();
    let mtg: u32 = kani::any();
    let overhead: usize = kani::any();
    let white: bool = kani::any();
    let inc_given: bool = kani::any();
    kani::assume(rem_ms <= BOUND_MS && inc_ms <= BOUND_MS && mtg >= 1);
    kani::assume(overhead <= 1000 && (overhead as u64) * 2 <= rem_ms);
    kani::cover!(rem_ms > 1_000_000 && mtg == 1);
    clocks_case(rem_ms, inc_ms, Some(mtg), overhead, white, Some(1), inc_given);
}

/// fixed move time is used as given; infinite has no limits
#[kani::proof]
#[kani::stub(std::time::Instant::now, stub_now)]
pub fn c14_exact_and_infinite() {
    let ms: u64 = kani::any();
    let white: bool = kani::any();
    let overhead: usize = kani::any();
    kani::assume(overhead <= 1000);
    #[cfg(test)] println!("REPLAY-CASE {{\"movetime_ms\":{},\"overhead\":{}}}", ms, overhead);
    let game = pos::game_of(&two_kings(white));
    let options = EngineOptions { hash_size: 1, threads: 1, move_overhead: overhead, syzygy_path: None };
    let t = Duration::from_millis(ms);
    let (ts, ctl) = TimeStrategy::new(&game, &TimeControl::ExactTime(t), &options);
    let (soft, hard) = ta::stops(&ts);
    assert!(soft == t && hard == t);
    std::mem::forget(ts);
    std::mem::forget(ctl);
    let (ts, ctl) = TimeStrategy::new(&game, &TimeControl::Infinite, &options);
    let (soft, hard) = ta::stops(&ts);
    assert!(soft == Duration::ZERO && hard == Duration::ZERO);
    kani::cover!(ms > 5);
    std::mem::forget(ts);
    std::mem::forget(ctl);
    std::mem::forget(game);
}

pub const BOUND_MS: u64 = super::gen::C14_BOUND_MS;
