//! C01 — legal move generation is exact. One private generator at a time (the others are
//! stubbed to no-ops by the generated instance), output observed through a push monitor,
//! compared with the make-then-test oracle for ONE arbitrary watched 16-bit move.
use super::geom;
use super::pos::{self, BPos, B, K, N, P, Q, R};
use super::stubs::{self, COUNT, TOTAL, WATCH};
use crate::chess::bitboard::Bitboard;
use crate::chess::game::Game;
use crate::chess::movegen::generate_legal_moves;
use crate::chess::moves::MoveList;
use crate::chess::square::Square;

type ML = MoveList;
type BB = Bitboard;
pub fn no_pawn_caps(_: &mut ML, _: &Game, _: BB, _: Square, _: BB, _: BB, _: BB, _: BB, _: BB) {}
pub fn no_pawn_quiets(_: &mut ML, _: &Game, _: BB, _: BB, _: BB, _: BB, _: BB) {}
pub fn no_piece5(_: &mut ML, _: BB, _: BB, _: BB, _: BB, _: BB) {}
pub fn no_piece6(_: &mut ML, _: BB, _: BB, _: BB, _: BB, _: BB, _: BB) {}
pub fn no_king(_: &mut ML, _: &Game, _: Square, _: BB) {}
pub fn no_castles(_: &mut ML, _: &Game, _: BB) {}

pub const G_PAWN_CAPS: u8 = 0;
pub const G_PAWN_QUIETS: u8 = 1;
pub const G_KNIGHT_CAPS: u8 = 2;
pub const G_KNIGHT_QUIETS: u8 = 3;
pub const G_DIAG_CAPS: u8 = 4;
pub const G_DIAG_QUIETS: u8 = 5;
pub const G_ORTH_CAPS: u8 = 6;
pub const G_ORTH_QUIETS: u8 = 7;
pub const G_KING_CAPS: u8 = 8;
pub const G_KING_QUIETS: u8 = 9;
pub const G_CASTLES: u8 = 10;
pub const G_ALL: u8 = 11;

/// which legal moves generator `g` is responsible for (stage split documented in gen.rs:
/// captures + queen-promotion pushes first, quiets + under-promotion pushes second)
pub fn class_of(g: u8, p: &BPos, w: u16, m: &pos::Made) -> bool {
    let src = pos::raw_src(w);
    let dst = pos::raw_dst(w);
    let promo = pos::raw_promo(w);
    let (sf, sr, df, dr) = ((src % 8) as i8, (src / 8) as i8, (dst % 8) as i8, (dst / 8) as i8);
    let diagonal = (sf - df == sr - dr) || (sf - df == dr - sr);
    match g {
        G_PAWN_CAPS => m.kind == P && (m.capture || promo == 4),
        G_PAWN_QUIETS => m.kind == P && !m.capture && promo != 4,
        G_KNIGHT_CAPS => m.kind == N && m.capture,
        G_KNIGHT_QUIETS => m.kind == N && !m.capture,
        G_DIAG_CAPS => (m.kind == B || m.kind == Q) && diagonal && m.capture,
        G_DIAG_QUIETS => (m.kind == B || m.kind == Q) && diagonal && !m.capture,
        G_ORTH_CAPS => (m.kind == R || m.kind == Q) && !diagonal && m.capture,
        G_ORTH_QUIETS => (m.kind == R || m.kind == Q) && !diagonal && !m.capture,
        G_KING_CAPS => m.kind == K && m.capture,
        G_KING_QUIETS => m.kind == K && !m.capture && !m.castle,
        G_CASTLES => m.castle,
        _ => true,
    }
}

/// `max_own`: bound on own pieces the generator loops over (loop bound); `max_total`: bound on all pieces (0 = none)
pub fn check_gen(g: u8, wtm: bool, ksq: u8, max_own: u32, max_total: u32) {
    let p = pos::any_valid();
    kani::assume(p.white_to_move == wtm);
    let us = p.us();
    if ksq < 64 { kani::assume(p.pcs[us][K] == 1u64 << ksq); } // 64: king square symbolic (only feasible on sparse boards)
    let own_loop = match g {
        G_PAWN_CAPS | G_PAWN_QUIETS => p.pcs[us][P],
        G_KNIGHT_CAPS | G_KNIGHT_QUIETS => p.pcs[us][N],
        G_DIAG_CAPS | G_DIAG_QUIETS => p.pcs[us][B] | p.pcs[us][Q],
        G_ORTH_CAPS | G_ORTH_QUIETS => p.pcs[us][R] | p.pcs[us][Q],
        _ => 0,
    };
    kani::assume(own_loop.count_ones() <= max_own);
    if max_total > 0 { kani::assume(p.occ().count_ones() <= max_total); }
    let w: u16 = kani::any();
    kani::assume(w != 0);
    #[cfg(test)] println!("REPLAY-CASE {{\"fen\":\"{}\",\"move\":\"{}\",\"generator\":{}}}", pos::fen_of(&p), pos::move_text(w), g);
    let game = pos::game_of(&p);
    unsafe { WATCH = w; COUNT = 0; TOTAL = 0; }
    let mut moves = MoveList::new();
    generate_legal_moves(&game, &mut moves);
    let made = pos::legal_move(&p, pos::raw_src(w), pos::raw_dst(w), pos::raw_promo(w));
    let legal = match &made { Some(m) => m.raw == w, None => false };
    #[cfg(not(test))]
    {
        let expect = legal && class_of(g, &p, w, made.as_ref().unwrap());
        let count = unsafe { COUNT };
        assert!(count == if expect { 1 } else { 0 });
        kani::cover!(expect);
    }
    #[cfg(test)]
    {
        // native replay: real tables, real list, all generators on -> the whole list must hold w exactly iff legal
        let count = moves.iter().filter(|m| stubs::raw_of(**m) == w).count();
        println!("REPLAY-INFO legal={} count_in_real_list={} list={:?}", legal, count, moves);
        assert!(count == if legal { 1 } else { 0 });
    }
    std::mem::forget(game);
}

/// the engine's in-check verdict agrees with the rules, on every valid position
pub fn c01_in_check_body() {
    let p = pos::any_valid();
    #[cfg(test)] println!("REPLAY-CASE {{\"fen\":\"{}\"}}", pos::fen_of(&p));
    let game = pos::game_of(&p);
    let us = p.us();
    let expect = pos::attacked(&p.pcs, p.occ(), p.pcs[us][K], 1 - us);
    assert!(game.is_king_in_check() == expect);
    kani::cover!(expect);
    std::mem::forget(game);
}
