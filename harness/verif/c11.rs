//! C11 — repetition window, fifty-move rule, dead material.
use super::pos::{self, BPos, B, K, N, P, Q, R};
use super::step;
use super::stubs::{move_of, raw_of};
use crate::chess::game::{CastleRights, Game, History};
use crate::chess::moves::{Move, MoveList};
use crate::chess::player::ByPlayer;
use crate::chess::zobrist::ZobristHash;
use crate::engine::eval::{IncrementalEvalFields, PhasedEval};

/// dead material on ANY board with one king each (no loops; all twelve bitboards symbolic)
#[kani::proof]
pub fn c11_material() {
    let p = pos::any_bpos_raw();
    // only what the function's meaning needs: disjoint boards, one king each
    let mut or = 0u64;
    let mut c = 0;
    while c < 2 { let mut k = 0; while k < 6 { kani::assume(or & p.pcs[c][k] == 0); or |= p.pcs[c][k]; k += 1; } c += 1; }
    kani::assume(pos::single(p.pcs[0][K]) && pos::single(p.pcs[1][K]));
    kani::assume(p.ep == 64);
    #[cfg(test)] println!("REPLAY-CASE {{\"fen\":\"{}\"}}", pos::fen_of(&p));
    let g = pos::game_of(&p);
    let r = g.is_stalemate_by_insufficient_material();
    let heavy = p.pcs[0][P] | p.pcs[1][P] | p.pcs[0][R] | p.pcs[1][R] | p.pcs[0][Q] | p.pcs[1][Q];
    let minors = (p.pcs[0][N] | p.pcs[1][N] | p.pcs[0][B] | p.pcs[1][B]).count_ones();
    // never when a pawn, rook or queen is on the board
    if heavy != 0 { assert!(!r); }
    // never when more than two minor pieces remain
    if minors > 2 { assert!(!r); }
    // bare kings; king and one minor piece against king
    if heavy == 0 && minors <= 1 { assert!(r); }
    kani::cover!(r && minors == 2);
    kani::cover!(!r && heavy == 0 && minors == 2);
    std::mem::forget(g);
}

static mut STUB_N: u8 = 0;
/// stand-in for the move generator in the fifty-move harness: emits STUB_N arbitrary moves
pub fn stub_generate(_g: &Game, moves: &mut MoveList) {
    let n = unsafe { STUB_N };
    let mut i = 0;
    while i < n {
        let w: u16 = kani::any();
        kani::assume(w != 0);
        moves.push(move_of(w));
        i += 1;
    }
}

/// fifty-move draw exactly when the clock has reached 100 and the side to move has a legal move
#[kani::proof]
#[kani::unwind(5)]
#[kani::stub(crate::chess::movegen::gen::generate_legal_moves, stub_generate)]
pub fn c11_fifty_move() {
    let mut pcs = [[0u64; 6]; 2];
    pcs[0][K] = 1 << 4;
    pcs[1][K] = 1 << 60;
    let mut g = pos::game_of(&BPos { pcs, white_to_move: kani::any(), rights: [[false; 2]; 2], ep: 64 });
    let clock: u32 = kani::any();
    let n: u8 = kani::any();
    kani::assume(n <= 3);
    unsafe { STUB_N = n; }
    g.halfmove_clock = clock;
    #[cfg(test)] println!("REPLAY-CASE {{\"clock\":{},\"legal_moves\":{}}}", clock, n);
    let r = g.is_stalemate_by_fifty_move_rule();
    assert!(r == (clock >= 100 && n > 0));
    kani::cover!(clock == 100 && n == 0);
    kani::cover!(clock == 100 && n == 1);
    std::mem::forget(g);
}

/// repetition window: reported exactly when one of the last `halfmove_clock` history entries (the
/// positions since the last capture or pawn move) carries the current key. History of up to 6 entries,
/// arbitrary keys, arbitrary clock (incl. a FEN start: clock > 0 with empty history).
#[kani::proof]
#[kani::unwind(15)]
pub fn c11_repetition_window() { repetition_window(6); }

pub fn repetition_window(maxlen: usize) {
    let mut pcs = [[0u64; 6]; 2];
    pcs[0][K] = 1 << 4;
    pcs[1][K] = 1 << 60;
    let mut g = pos::game_of(&BPos { pcs, white_to_move: true, rights: [[false; 2]; 2], ep: 64 });
    let len: usize = kani::any();
    kani::assume(len <= maxlen && maxlen <= 12);
    let keys: [u64; 12] = [kani::any(), kani::any(), kani::any(), kani::any(), kani::any(), kani::any(), kani::any(), kani::any(), kani::any(), kani::any(), kani::any(), kani::any()];
    let clock: u32 = kani::any();
    // stored clocks as real histories have them: the entry j plies back carries clock - 1 - j while inside the
    // reversible tail; older entries (before the last capture or pawn move) carry arbitrary clocks
    let older: [u32; 12] = [kani::any(), kani::any(), kani::any(), kani::any(), kani::any(), kani::any(), kani::any(), kani::any(), kani::any(), kani::any(), kani::any(), kani::any()];
    let mut i = 0;
    while i < len {
        let back = (len - 1 - i) as u32; // plies back from the current position, minus one
        let stored = if back < clock { clock - 1 - back } else { older[i] };
        g.history.push(History {
            mv: None, captured: None,
            castle_rights: ByPlayer::new(CastleRights::none(), CastleRights::none()),
            en_passant_target: None, halfmove_clock: stored, zobrist: ZobristHash(keys[i]),
            incremental_eval: IncrementalEvalFields { phase_value: 0, piece_square_tables: PhasedEval::ZERO },
        });
        i += 1;
    }
    let z: u64 = kani::any();
    g.halfmove_clock = clock;
    g.zobrist = ZobristHash(z);
    #[cfg(test)] println!("REPLAY-CASE {{\"len\":{},\"clock\":{},\"key\":{},\"keys\":{:?}}}", len, clock, z, keys);
    let r = g.is_repeated_position();
    // oracle: entries len-1, len-2, ... len-clock (as far as they exist) are the positions since the last irreversible move
    let mut expect = false;
    let mut j = 0usize;
    while j < 12 {
        if j < len && (j as u64) < clock as u64 && keys[len - 1 - j] == z { expect = true; }
        j += 1;
    }
    assert!(r == expect);
    kani::cover!(r && clock < len as u32);
    kani::cover!(!r && len > 0 && keys[0] == z); // an equal key outside the window is NOT a repetition
    std::mem::forget(g);
}

/// what make_move / make_null_move push: the key of the position left behind and its clock; and the clock
/// rule that delimits the window (reset on capture or pawn move, else +1). Any valid position, any legal move.
pub fn history_entry(kind: usize, side: u8) {
    let (pre, mut g, w, m) = step::any_case(kind, side);
    let z0: u64 = kani::any();
    g.zobrist = ZobristHash(z0);
    #[cfg(test)] println!("REPLAY-CASE {{\"fen\":\"{}\",\"clock\":{},\"move\":\"{}\"}}", pos::fen_of(&pre.p), pre.clock, pos::move_text(w));
    g.make_move(move_of(w));
    let h = g.history.last().unwrap();
    assert!(h.zobrist.0 == z0);
    assert!(h.halfmove_clock == pre.clock);
    assert!(g.history.len() == pre.hist_len + 1);
    assert!(g.halfmove_clock == if m.capture || m.kind == P { 0 } else { pre.clock + 1 });
    kani::cover!(true);
    std::mem::forget(g);
}
