//! Oracle geometry: straight-line (loop-free, constant-shift) bitboard functions on u64,
//! plus a naive square-by-square walk they are proven equal to (c07_geom_* harnesses).
//! Bit i = square i, a1 = 0, h1 = 7, a8 = 56 (the engine's numbering, read from square.rs docs).
#![allow(dead_code)]

pub const FILE_A: u64 = 0x0101_0101_0101_0101;
pub const FILE_H: u64 = 0x8080_8080_8080_8080;
pub const NOT_A: u64 = !FILE_A;
pub const NOT_H: u64 = !FILE_H;
pub const RANK_1: u64 = 0xff;
pub const RANK_2: u64 = 0xff00;
pub const RANK_3: u64 = 0xff_0000;
pub const RANK_4: u64 = 0xff00_0000;
pub const RANK_5: u64 = 0xff_0000_0000;
pub const RANK_6: u64 = 0xff00_0000_0000;
pub const RANK_7: u64 = 0x00ff_0000_0000_0000;
pub const RANK_8: u64 = 0xff00_0000_0000_0000;

#[inline(always)] pub fn n(b: u64) -> u64 { b << 8 }
#[inline(always)] pub fn s(b: u64) -> u64 { b >> 8 }
#[inline(always)] pub fn e(b: u64) -> u64 { (b << 1) & NOT_A }
#[inline(always)] pub fn w(b: u64) -> u64 { (b >> 1) & NOT_H }
#[inline(always)] pub fn ne(b: u64) -> u64 { (b << 9) & NOT_A }
#[inline(always)] pub fn nw(b: u64) -> u64 { (b << 7) & NOT_H }
#[inline(always)] pub fn se(b: u64) -> u64 { (b >> 7) & NOT_A }
#[inline(always)] pub fn sw(b: u64) -> u64 { (b >> 9) & NOT_H }

macro_rules! ray {
    ($step:ident, $from:expr, $occ:expr) => {{
        // squares reached walking from `from` until (and including) the first blocker
        let free = !$occ;
        let mut r = $step($from);
        r |= $step(r & free);
        r |= $step(r & free);
        r |= $step(r & free);
        r |= $step(r & free);
        r |= $step(r & free);
        r |= $step(r & free);
        r
    }};
}

pub fn rook_att(from: u64, occ: u64) -> u64 {
    ray!(n, from, occ) | ray!(s, from, occ) | ray!(e, from, occ) | ray!(w, from, occ)
}
pub fn bishop_att(from: u64, occ: u64) -> u64 {
    ray!(ne, from, occ) | ray!(nw, from, occ) | ray!(se, from, occ) | ray!(sw, from, occ)
}
pub fn queen_att(from: u64, occ: u64) -> u64 { rook_att(from, occ) | bishop_att(from, occ) }
pub fn knight_att(b: u64) -> u64 {
    ne(n(b)) | ne(e(b)) | se(e(b)) | se(s(b)) | sw(s(b)) | sw(w(b)) | nw(w(b)) | nw(n(b))
}
pub fn king_att(b: u64) -> u64 {
    n(b) | s(b) | e(b) | w(b) | ne(b) | nw(b) | se(b) | sw(b)
}
/// squares attacked by pawns `b` of the given colour
pub fn pawn_att(b: u64, white: bool) -> u64 {
    if white { ne(b) | nw(b) } else { se(b) | sw(b) }
}
/// squares strictly between two single-bit boards on a common line, else 0
pub fn between(a: u64, b: u64) -> u64 {
    let mut out = 0u64;
    macro_rules! dir { ($step:ident) => {{ let r = ray!($step, a, b); if r & b != 0 { out |= r & !b; } }}; }
    dir!(n); dir!(s); dir!(e); dir!(w); dir!(ne); dir!(nw); dir!(se); dir!(sw);
    out
}

// ---------------------------------------------------------------------------------------
// Naive definitions (file/rank arithmetic, one square at a time). Used only to validate
// the straight-line versions above; never used as stubs.
// ---------------------------------------------------------------------------------------

/// walk from square `sq` in direction (df, dr) until the edge or the first occupied square (inclusive)
pub fn naive_ray(sq: u8, df: i8, dr: i8, occ: u64) -> u64 {
    let mut f = (sq % 8) as i8;
    let mut r = (sq / 8) as i8;
    let mut out = 0u64;
    let mut i = 0;
    while i < 7 {
        f += df;
        r += dr;
        if f < 0 || f > 7 || r < 0 || r > 7 { break; }
        let b = 1u64 << ((r * 8 + f) as u32);
        out |= b;
        if occ & b != 0 { break; }
        i += 1;
    }
    out
}
pub fn naive_rook(sq: u8, occ: u64) -> u64 {
    naive_ray(sq, 0, 1, occ) | naive_ray(sq, 0, -1, occ) | naive_ray(sq, 1, 0, occ) | naive_ray(sq, -1, 0, occ)
}
pub fn naive_bishop(sq: u8, occ: u64) -> u64 {
    naive_ray(sq, 1, 1, occ) | naive_ray(sq, -1, 1, occ) | naive_ray(sq, 1, -1, occ) | naive_ray(sq, -1, -1, occ)
}
pub fn naive_step(sq: u8, df: i8, dr: i8) -> u64 {
    let f = (sq % 8) as i8 + df;
    let r = (sq / 8) as i8 + dr;
    if f < 0 || f > 7 || r < 0 || r > 7 { 0 } else { 1u64 << ((r * 8 + f) as u32) }
}
pub fn naive_knight(sq: u8) -> u64 {
    naive_step(sq, 1, 2) | naive_step(sq, 2, 1) | naive_step(sq, 2, -1) | naive_step(sq, 1, -2)
        | naive_step(sq, -1, -2) | naive_step(sq, -2, -1) | naive_step(sq, -2, 1) | naive_step(sq, -1, 2)
}
pub fn naive_king(sq: u8) -> u64 {
    naive_step(sq, 0, 1) | naive_step(sq, 1, 1) | naive_step(sq, 1, 0) | naive_step(sq, 1, -1)
        | naive_step(sq, 0, -1) | naive_step(sq, -1, -1) | naive_step(sq, -1, 0) | naive_step(sq, -1, 1)
}
pub fn naive_pawn(sq: u8, white: bool) -> u64 {
    let dr = if white { 1 } else { -1 };
    naive_step(sq, -1, dr) | naive_step(sq, 1, dr)
}
/// squares strictly between a and b if they share a rank, file or diagonal, else empty
pub fn naive_between(a: u8, b: u8) -> u64 {
    let (af, ar, bf, br) = ((a % 8) as i8, (a / 8) as i8, (b % 8) as i8, (b / 8) as i8);
    let (df, dr) = (bf - af, br - ar);
    if a == b { return 0; }
    if !(df == 0 || dr == 0 || df == dr || df == -dr) { return 0; }
    let sf = if df > 0 { 1 } else if df < 0 { -1 } else { 0 };
    let sr = if dr > 0 { 1 } else if dr < 0 { -1 } else { 0 };
    let mut f = af + sf;
    let mut r = ar + sr;
    let mut out = 0u64;
    let mut i = 0;
    while i < 7 {
        if f == bf && r == br { break; }
        out |= 1u64 << ((r * 8 + f) as u32);
        f += sf;
        r += sr;
        i += 1;
    }
    out
}
