//! Oracle position (twelve bitboards), the property's "legal position" predicate, the
//! make-then-test move oracle, and the bridge to the engine's `Game`.
#![allow(dead_code)]
use super::geom::*;
use crate::chess::game::{CastleRights, Game};
use crate::chess::piece::{Piece, PieceKind};
use crate::chess::player::{ByPlayer, Player};
use crate::chess::square::Square;
use crate::chess::zobrist::ZobristHash;
use crate::engine::eval::{IncrementalEvalFields, PhasedEval};

pub const P: usize = 0;
pub const N: usize = 1;
pub const B: usize = 2;
pub const R: usize = 3;
pub const Q: usize = 4;
pub const K: usize = 5;

#[derive(Clone, Copy, PartialEq, Eq)]
pub struct BPos {
    /// [colour][kind]; colour 0 white, 1 black; kind 0 P,1 N,2 B,3 R,4 Q,5 K
    pub pcs: [[u64; 6]; 2],
    pub white_to_move: bool,
    /// [colour][0 king side, 1 queen side]
    pub rights: [[bool; 2]; 2],
    /// en-passant target square index, 64 = none
    pub ep: u8,
}

impl BPos {
    pub fn occ_of(&self, c: usize) -> u64 {
        let p = &self.pcs[c];
        p[0] | p[1] | p[2] | p[3] | p[4] | p[5]
    }
    pub fn occ(&self) -> u64 { self.occ_of(0) | self.occ_of(1) }
    pub fn us(&self) -> usize { if self.white_to_move { 0 } else { 1 } }
    pub fn them(&self) -> usize { 1 - self.us() }
}

pub fn occ_all(p: &[[u64; 6]; 2]) -> u64 {
    p[0][0] | p[0][1] | p[0][2] | p[0][3] | p[0][4] | p[0][5] | p[1][0] | p[1][1] | p[1][2] | p[1][3] | p[1][4] | p[1][5]
}

pub fn single(b: u64) -> bool { b != 0 && b & (b.wrapping_sub(1)) == 0 }

/// is the single square `sq` attacked by colour `by`
pub fn attacked(p: &[[u64; 6]; 2], occ: u64, sq: u64, by: usize) -> bool {
    let them = &p[by];
    // a pawn of colour `by` attacks sq iff it stands where a pawn of the other colour on sq would capture
    (pawn_att(sq, by == 1) & them[P]) != 0
        || (knight_att(sq) & them[N]) != 0
        || (bishop_att(sq, occ) & (them[B] | them[Q])) != 0
        || (rook_att(sq, occ) & (them[R] | them[Q])) != 0
        || (king_att(sq) & them[K]) != 0
}

/// set of pieces of colour `by` attacking the single square `sq`
pub fn attackers_of(p: &[[u64; 6]; 2], occ: u64, sq: u64, by: usize) -> u64 {
    let them = &p[by];
    (pawn_att(sq, by == 1) & them[P])
        | (knight_att(sq) & them[N])
        | (bishop_att(sq, occ) & (them[B] | them[Q]))
        | (rook_att(sq, occ) & (them[R] | them[Q]))
        | (king_att(sq) & them[K])
}

/// The property's validity predicate on the twelve boards + state ("legal position").
pub fn valid(p: &BPos) -> bool {
    let pcs = &p.pcs;
    // pairwise disjoint
    let mut or = 0u64;
    let mut c = 0;
    while c < 2 {
        let mut k = 0;
        while k < 6 {
            if or & pcs[c][k] != 0 { return false; }
            or |= pcs[c][k];
            k += 1;
        }
        c += 1;
    }
    if !(single(pcs[0][K]) && single(pcs[1][K])) { return false; }
    if (pcs[0][P] | pcs[1][P]) & (RANK_1 | RANK_8) != 0 { return false; }
    let occ = or;
    if p.rights[0][0] && !(pcs[0][K] == 1 << 4 && pcs[0][R] & (1 << 7) != 0) { return false; }
    if p.rights[0][1] && !(pcs[0][K] == 1 << 4 && pcs[0][R] & 1 != 0) { return false; }
    if p.rights[1][0] && !(pcs[1][K] == 1 << 60 && pcs[1][R] & (1 << 63) != 0) { return false; }
    if p.rights[1][1] && !(pcs[1][K] == 1 << 60 && pcs[1][R] & (1 << 56) != 0) { return false; }
    if p.ep > 64 { return false; }
    if p.ep < 64 {
        let e = 1u64 << p.ep;
        if p.white_to_move {
            if !(p.ep / 8 == 5 && occ & (e | e << 8) == 0 && pcs[1][P] & (e >> 8) != 0) { return false; }
        } else {
            if !(p.ep / 8 == 2 && occ & (e | e >> 8) == 0 && pcs[0][P] & (e << 8) != 0) { return false; }
        }
    }
    let (us, them) = if p.white_to_move { (0, 1) } else { (1, 0) };
    // the side not to move is not in check
    !attacked(pcs, occ, pcs[them][K], us)
}

/// material a game can actually reach: <= 16 men a side, <= 8 pawns, every piece beyond the initial set paid for by a missing pawn
pub fn legal_material(p: &BPos) -> bool {
    let mut ok = true;
    let mut c = 0;
    while c < 2 {
        let q = &p.pcs[c];
        let pawns = q[P].count_ones();
        let extra = q[N].count_ones().saturating_sub(2) + q[B].count_ones().saturating_sub(2)
            + q[R].count_ones().saturating_sub(2) + q[Q].count_ones().saturating_sub(1);
        if pawns > 8 || extra + pawns > 8 { ok = false; }
        c += 1;
    }
    ok
}

#[cfg(kani)]
pub fn any_bpos_raw() -> BPos {
    BPos {
        pcs: [
            [kani::any(), kani::any(), kani::any(), kani::any(), kani::any(), kani::any()],
            [kani::any(), kani::any(), kani::any(), kani::any(), kani::any(), kani::any()],
        ],
        white_to_move: kani::any(),
        rights: [[kani::any(), kani::any()], [kani::any(), kani::any()]],
        ep: kani::any(),
    }
}

/// arbitrary position satisfying the validity predicate
#[cfg(kani)]
pub fn any_valid() -> BPos {
    let p = any_bpos_raw();
    kani::assume(valid(&p));
    p
}

pub fn kind_of(k: usize) -> PieceKind {
    match k { 0 => PieceKind::Pawn, 1 => PieceKind::Knight, 2 => PieceKind::Bishop, 3 => PieceKind::Rook, 4 => PieceKind::Queen, _ => PieceKind::King }
}
pub fn kind_idx(k: PieceKind) -> usize {
    match k { PieceKind::Pawn => 0, PieceKind::Knight => 1, PieceKind::Bishop => 2, PieceKind::Rook => 3, PieceKind::Queen => 4, PieceKind::King => 5 }
}

pub fn piece_at_bit(pcs: &[[u64; 6]; 2], b: u64) -> Option<Piece> {
    if pcs[0][0] & b != 0 { Some(Piece::WHITE_PAWN) }
    else if pcs[0][1] & b != 0 { Some(Piece::WHITE_KNIGHT) }
    else if pcs[0][2] & b != 0 { Some(Piece::WHITE_BISHOP) }
    else if pcs[0][3] & b != 0 { Some(Piece::WHITE_ROOK) }
    else if pcs[0][4] & b != 0 { Some(Piece::WHITE_QUEEN) }
    else if pcs[0][5] & b != 0 { Some(Piece::WHITE_KING) }
    else if pcs[1][0] & b != 0 { Some(Piece::BLACK_PAWN) }
    else if pcs[1][1] & b != 0 { Some(Piece::BLACK_KNIGHT) }
    else if pcs[1][2] & b != 0 { Some(Piece::BLACK_BISHOP) }
    else if pcs[1][3] & b != 0 { Some(Piece::BLACK_ROOK) }
    else if pcs[1][4] & b != 0 { Some(Piece::BLACK_QUEEN) }
    else if pcs[1][5] & b != 0 { Some(Piece::BLACK_KING) }
    else { None }
}

macro_rules! mb { ($sq:ident, $pcs:expr, $($i:literal)*) => { $( $sq[$i] = piece_at_bit($pcs, 1u64 << $i); )* }; }

/// mailbox derived from the bitboards by 64 straight-line assignments (no symbolic-index writes)
pub fn mailbox(pcs: &[[u64; 6]; 2]) -> [Option<Piece>; 64] {
    let mut sq: [Option<Piece>; 64] = [None; 64];
    mb!(sq, pcs, 0 1 2 3 4 5 6 7 8 9 10 11 12 13 14 15 16 17 18 19 20 21 22 23 24 25 26 27 28 29 30 31
        32 33 34 35 36 37 38 39 40 41 42 43 44 45 46 47 48 49 50 51 52 53 54 55 56 57 58 59 60 61 62 63);
    sq
}

pub fn player_of(c: usize) -> Player { if c == 0 { Player::White } else { Player::Black } }

/// the engine's Game for an oracle position; key and accumulators zero unless set by the caller
pub fn game_of(p: &BPos) -> Game {
    let board = crate::chess::board::verif_access::board_from(&p.pcs, mailbox(&p.pcs));
    Game {
        player: player_of(p.us()),
        board,
        castle_rights: ByPlayer::new(
            CastleRights { king_side: p.rights[0][0], queen_side: p.rights[0][1] },
            CastleRights { king_side: p.rights[1][0], queen_side: p.rights[1][1] },
        ),
        en_passant_target: if p.ep < 64 { Some(Square::from_index(p.ep)) } else { None },
        halfmove_clock: 0,
        plies: 0,
        zobrist: ZobristHash(0),
        incremental_eval: IncrementalEvalFields { phase_value: 0, piece_square_tables: PhasedEval::ZERO },
        // capacity reserved up front: pushes never reallocate (Vec growth is std's business, not the engine's)
        history: Vec::with_capacity(8),
    }
}

/// read the engine's position back into oracle form, using ONLY the by-kind and by-colour views
pub fn bpos_of_bitboards(g: &Game) -> BPos {
    let kinds = crate::chess::board::verif_access::kinds_raw(&g.board);
    let cols = crate::chess::board::verif_access::colors_raw(&g.board);
    let mut pcs = [[0u64; 6]; 2];
    let mut k = 0;
    while k < 6 { pcs[0][k] = kinds[k] & cols[0]; pcs[1][k] = kinds[k] & cols[1]; k += 1; }
    let cr = g.castle_rights.inner();
    BPos {
        pcs,
        white_to_move: g.player == Player::White,
        rights: [[cr[0].king_side, cr[0].queen_side], [cr[1].king_side, cr[1].queen_side]],
        ep: match g.en_passant_target { Some(s) => s.idx(), None => 64 },
    }
}

/// do the three views of the engine's board agree on square `i`?
pub fn views_agree_at(g: &Game, i: usize) -> bool {
    let kinds = crate::chess::board::verif_access::kinds_raw(&g.board);
    let cols = crate::chess::board::verif_access::colors_raw(&g.board);
    let b = 1u64 << i;
    let m = crate::chess::board::verif_access::square_raw(&g.board, i);
    let inw = cols[0] & b != 0;
    let inb = cols[1] & b != 0;
    let mut nk = 0;
    let mut which = 6usize;
    let mut k = 0;
    while k < 6 { if kinds[k] & b != 0 { nk += 1; which = k; } k += 1; }
    match m {
        None => !inw && !inb && nk == 0,
        Some(pc) => nk == 1 && which == kind_idx(pc.kind) && (inw != inb) && (inw == (pc.player == Player::White)),
    }
}

pub const PROMO_NONE: u8 = 0;

/// decode the engine's documented 16-bit move layout (moves.rs header comment)
pub fn raw_src(w: u16) -> u8 { (w & 63) as u8 }
pub fn raw_dst(w: u16) -> u8 { ((w >> 6) & 63) as u8 }
pub fn raw_flags(w: u16) -> u8 { (w >> 12) as u8 }
/// promotion kind index (1 N, 2 B, 3 R, 4 Q) or 0 — from flag bits: bit1 = promotion, bits 2..3: 00 B? see below
/// Flags enum in moves.rs: PromoteToBishop = 0b0010, Knight = 0b1010, Rook = 0b0110, Queen = 0b1110 (+1 capture)
pub fn raw_promo(w: u16) -> u8 {
    let f = raw_flags(w);
    if f & 2 != 0 { match f >> 2 { 0 => 2, 2 => 1, 1 => 3, _ => 4 } } else { 0 }
}
pub fn enc(src: u8, dst: u8, capture: bool, ep: bool, castle: bool, promo: u8) -> u16 {
    let mut flags: u16 = 0;
    if capture { flags |= 1; }
    if promo != 0 {
        flags |= 2 | match promo { 2 => 0, 1 => 8, 3 => 4, _ => 12 };
    } else if ep || castle { flags |= 4; }
    (src as u16) | ((dst as u16) << 6) | (flags << 12)
}

#[derive(Clone, Copy)]
pub struct Made {
    pub raw: u16,
    pub kind: usize,
    pub capture: bool,
    pub captured_kind: usize, // 6 = none
    pub ep: bool,
    pub castle: bool,
    pub after: [[u64; 6]; 2],
}

/// The rules, make-then-test: if (src,dst,promo) is a legal move in `p`, its expected raw
/// encoding and the placement after it; None otherwise. promo: 0 none, 1 N, 2 B, 3 R, 4 Q.
pub fn legal_move(p: &BPos, src: u8, dst: u8, promo: u8) -> Option<Made> {
    let us = p.us();
    let them = 1 - us;
    let sb = 1u64 << src;
    let db = 1u64 << dst;
    let own = p.occ_of(us);
    let opp = p.occ_of(them);
    let occ = own | opp;
    if sb & own == 0 || db & own != 0 || src == dst { return None; }
    if db & p.pcs[them][K] != 0 { return None; }
    let mine = &p.pcs[us];
    let kind: usize = if sb & mine[0] != 0 { 0 } else if sb & mine[1] != 0 { 1 } else if sb & mine[2] != 0 { 2 }
        else if sb & mine[3] != 0 { 3 } else if sb & mine[4] != 0 { 4 } else { 5 };
    let white = p.white_to_move;
    let mut capture = db & opp != 0;
    let mut ep = false;
    let mut castle = false;
    let epb = if p.ep < 64 { 1u64 << p.ep } else { 0 };
    let ok = match kind {
        0 => {
            let one = (if white { n(sb) } else { s(sb) }) & !occ;
            let start = if white { RANK_2 } else { RANK_7 };
            let two = if sb & start != 0 { (if white { n(one) } else { s(one) }) & !occ } else { 0 };
            let caps = pawn_att(sb, white);
            if db & (one | two) != 0 { true }
            else if db & caps & opp != 0 { true }
            else if db & caps & epb != 0 { ep = true; capture = true; true }
            else { false }
        }
        1 => db & knight_att(sb) != 0,
        2 => db & bishop_att(sb, occ) != 0,
        3 => db & rook_att(sb, occ) != 0,
        4 => db & (bishop_att(sb, occ) | rook_att(sb, occ)) != 0,
        _ => {
            if db & king_att(sb) != 0 { true } else {
                let home: u8 = if white { 4 } else { 60 };
                let hb = 1u64 << home;
                if src == home && !attacked(&p.pcs, occ, sb, them) {
                    if dst == home + 2 {
                        castle = true;
                        p.rights[us][0] && occ & (hb << 1 | hb << 2) == 0 && mine[R] & (hb << 3) != 0
                            && !attacked(&p.pcs, occ, hb << 1, them)
                    } else if dst == home - 2 {
                        castle = true;
                        p.rights[us][1] && occ & (hb >> 1 | hb >> 2 | hb >> 3) == 0 && mine[R] & (hb >> 4) != 0
                            && !attacked(&p.pcs, occ, hb >> 1, them)
                    } else { false }
                } else { false }
            }
        }
    };
    if !ok { return None; }
    let last = if white { RANK_8 } else { RANK_1 };
    let promotes = kind == 0 && db & last != 0;
    if promotes != (promo != 0) { return None; }
    if promo > 4 { return None; }

    // make the move on a copy of the twelve boards
    let mut q = p.pcs;
    q[us][kind] &= !sb;
    let landed = if promo != 0 { promo as usize } else { kind };
    q[us][landed] |= db;
    let mut captured_kind = 6usize;
    let mut k = 0;
    while k < 6 { if q[them][k] & db != 0 { captured_kind = k; } q[them][k] &= !db; k += 1; }
    if ep { let victim = if white { s(db) } else { n(db) }; q[them][P] &= !victim; captured_kind = 0; }
    if castle {
        if dst > src { q[us][R] &= !(db << 1); q[us][R] |= db >> 1; } else { q[us][R] &= !(db >> 2); q[us][R] |= db << 1; }
    }
    let occ2 = occ_all(&q);
    if attacked(&q, occ2, q[us][K], them) { return None; }

    Some(Made { raw: enc(src, dst, capture, ep, castle, promo), kind, capture, captured_kind, ep, castle, after: q })
}

pub fn legal_raw(p: &BPos, src: u8, dst: u8, promo: u8) -> Option<u16> {
    match legal_move(p, src, dst, promo) { Some(m) => Some(m.raw), None => None }
}

/// is `w` exactly the encoding of a legal move of `p`
pub fn is_legal_raw(p: &BPos, w: u16) -> bool {
    w != 0 && legal_raw(p, raw_src(w), raw_dst(w), raw_promo(w)) == Some(w)
}

/// colour swap + rank flip
pub fn mirror(p: &BPos) -> BPos {
    let mut pcs = [[0u64; 6]; 2];
    let mut k = 0;
    while k < 6 { pcs[0][k] = p.pcs[1][k].swap_bytes(); pcs[1][k] = p.pcs[0][k].swap_bytes(); k += 1; }
    BPos {
        pcs,
        white_to_move: !p.white_to_move,
        rights: [p.rights[1], p.rights[0]],
        ep: if p.ep < 64 { p.ep ^ 56 } else { 64 },
    }
}
pub fn mirror_raw(w: u16) -> u16 { w ^ 56 ^ (56 << 6) }

// ---------------------------------------------------------------------------------------
// Native-only helpers (replay output)
// ---------------------------------------------------------------------------------------
#[cfg(test)]
pub fn fen_of(p: &BPos) -> String {
    let letters = [['P', 'N', 'B', 'R', 'Q', 'K'], ['p', 'n', 'b', 'r', 'q', 'k']];
    let mut s = String::new();
    for r in (0..8).rev() {
        let mut empty = 0;
        for f in 0..8 {
            let b = 1u64 << (r * 8 + f);
            let mut ch = None;
            for c in 0..2 { for k in 0..6 { if p.pcs[c][k] & b != 0 { ch = Some(letters[c][k]); } } }
            match ch {
                Some(c) => { if empty > 0 { s.push_str(&empty.to_string()); empty = 0; } s.push(c); }
                None => empty += 1,
            }
        }
        if empty > 0 { s.push_str(&empty.to_string()); }
        if r > 0 { s.push('/'); }
    }
    s.push(' ');
    s.push(if p.white_to_move { 'w' } else { 'b' });
    s.push(' ');
    let mut any = false;
    for (c, k, ch) in [(0, 0, 'K'), (0, 1, 'Q'), (1, 0, 'k'), (1, 1, 'q')] { if p.rights[c][k] { s.push(ch); any = true; } }
    if !any { s.push('-'); }
    s.push(' ');
    if p.ep < 64 { s.push((b'a' + p.ep % 8) as char); s.push((b'1' + p.ep / 8) as char); } else { s.push('-'); }
    s
}
#[cfg(test)]
pub fn move_text(w: u16) -> String {
    let sq = |i: u8| format!("{}{}", (b'a' + i % 8) as char, (b'1' + i / 8) as char);
    format!("{}{}{} flags={:04b}", sq(raw_src(w)), sq(raw_dst(w)), ["", "n", "b", "r", "q"][raw_promo(w) as usize], raw_flags(w))
}
