//! C03 — the carried key equals the from-scratch key after every step (real component words loaded).
use super::dump;
use super::pos::{self, BPos, K, P};
use super::step::{self, Pre};
use super::stubs::{move_of, raw_of};
use crate::chess::game::{CastleRightsSide, Game};
use crate::chess::player::Player;
use crate::chess::square::Square;
use crate::chess::zobrist::{self, verif_access as za, ZobristHash};

#[cfg(not(test))]
fn load() { za::load(&dump::Z_PIECE_SQUARE, &dump::Z_CASTLING, &dump::Z_EP, dump::Z_NO_EP, dump::Z_SIDE); }
#[cfg(test)]
fn load() { crate::init(); }

#[cfg(test)]
fn show(pre: &Pre, w: u16) { println!("REPLAY-CASE {{\"fen\":\"{}\",\"move\":\"{}\"}}", pos::fen_of(&pre.p), pos::move_text(w)); }

fn bound_pieces(p: &BPos, per_kind: u32, pawns: u32) {
    let mut c = 0;
    while c < 2 {
        let mut k = 1;
        while k < 5 { kani::assume(p.pcs[c][k].count_ones() <= per_kind); k += 1; }
        kani::assume(p.pcs[c][P].count_ones() <= pawns);
        c += 1;
    }
}

/// direct statement, bounded material: key == hash(position) is preserved by make_move / undo_move
pub fn make_step(per_kind: u32, pawns: u32) {
    load();
    let (pre, mut g) = step::any_pre();
    bound_pieces(&pre.p, per_kind, pawns);
    let (w, m) = step::any_legal(&pre.p);
    #[cfg(test)] show(&pre, w);
    g.zobrist = zobrist::hash(&g);
    let z0 = g.zobrist.clone();
    g.make_move(move_of(w));
    assert!(g.zobrist == zobrist::hash(&g));
    kani::cover!(m.ep);
    kani::cover!(m.castle);
    kani::cover!(pos::raw_promo(w) != 0 && m.capture);
    g.undo_move();
    assert!(g.zobrist == z0);
    assert!(g.zobrist == zobrist::hash(&g));
    std::mem::forget(g);
}

/// same for the null move
pub fn null_step(per_kind: u32, pawns: u32) {
    load();
    let (pre, mut g) = step::any_pre();
    bound_pieces(&pre.p, per_kind, pawns);
    #[cfg(test)] show(&pre, 0);
    g.zobrist = zobrist::hash(&g);
    let z0 = g.zobrist.clone();
    g.make_null_move();
    assert!(g.zobrist == zobrist::hash(&g));
    g.undo_null_move();
    assert!(g.zobrist == z0);
    kani::cover!(pre.p.ep < 64);
    std::mem::forget(g);
}

// ---- unbounded material: the key changes by exactly the XOR of the components of what changed --------------

fn comp_bits(c: usize, k: usize, bits: u64) -> u64 {
    // XOR of the components of (colour c, kind k) on the (at most two) squares in `bits`
    let mut x = 0u64;
    if bits != 0 {
        let lo = bits.trailing_zeros() as u8;
        x ^= za::c_piece(pos::player_of(c), pos::kind_of(k), Square::from_index(lo));
        let rest = bits & (bits - 1);
        if rest != 0 {
            let hi = rest.trailing_zeros() as u8;
            x ^= za::c_piece(pos::player_of(c), pos::kind_of(k), Square::from_index(hi));
        }
    }
    x
}

/// XOR of the components in which two positions differ (placement differences of at most two squares per colour and kind)
pub fn delta(a: &BPos, b: &BPos) -> u64 {
    let mut d = 0u64;
    let mut c = 0;
    while c < 2 {
        let mut k = 0;
        while k < 6 { d ^= comp_bits(c, k, a.pcs[c][k] ^ b.pcs[c][k]); k += 1; }
        if a.rights[c][0] != b.rights[c][0] { d ^= za::c_castle(pos::player_of(c), CastleRightsSide::Kingside); }
        if a.rights[c][1] != b.rights[c][1] { d ^= za::c_castle(pos::player_of(c), CastleRightsSide::Queenside); }
        c += 1;
    }
    let ea = if a.ep < 64 { Some(Square::from_index(a.ep)) } else { None };
    let eb = if b.ep < 64 { Some(Square::from_index(b.ep)) } else { None };
    d ^= za::c_ep(ea) ^ za::c_ep(eb);
    if a.white_to_move != b.white_to_move { d ^= za::c_side(); }
    d
}

/// any valid position with ANY material, any carried key: make_move changes the key by exactly delta(before, after)
pub fn delta_make(kind: usize, side: u8) {
    load();
    let (pre, mut g, w, m) = step::any_case(kind, side);
    let z0: u64 = kani::any();
    g.zobrist = ZobristHash(z0);
    #[cfg(test)] show(&pre, w);
    g.make_move(move_of(w));
    let after = step::expected_after(&pre.p, w, &m);
    assert!(g.zobrist.0 == z0 ^ delta(&pre.p, &after));
    kani::cover!(m.capture || m.castle);
    g.undo_move();
    assert!(g.zobrist.0 == z0);
    std::mem::forget(g);
}

#[kani::proof]
pub fn c03_delta_null() {
    load();
    let (pre, mut g) = step::any_pre();
    let z0: u64 = kani::any();
    g.zobrist = ZobristHash(z0);
    #[cfg(test)] show(&pre, 0);
    g.make_null_move();
    let mut after = pre.p;
    after.white_to_move = !pre.p.white_to_move;
    after.ep = 64;
    assert!(g.zobrist.0 == z0 ^ delta(&pre.p, &after));
    g.undo_null_move();
    assert!(g.zobrist.0 == z0);
    kani::cover!(pre.p.ep < 64);
    std::mem::forget(g);
}

/// the definition the statement implies: XOR of the components of every feature of the position
pub fn xor_sum(p: &BPos) -> u64 {
    let mut x = 0u64;
    // all look-up indices concrete (colour, kind, square from the loop counters); only set membership is symbolic
    let mut c = 0;
    while c < 2 {
        let mut k = 0;
        while k < 6 {
            let mut sq = 0u8;
            while sq < 64 {
                if p.pcs[c][k] & (1u64 << sq) != 0 { x ^= za::c_piece(pos::player_of(c), pos::kind_of(k), Square::from_index(sq)); }
                sq += 1;
            }
            k += 1;
        }
        c += 1;
    }
    if p.rights[0][0] { x ^= za::c_castle(Player::White, CastleRightsSide::Kingside); }
    if p.rights[0][1] { x ^= za::c_castle(Player::White, CastleRightsSide::Queenside); }
    if p.rights[1][0] { x ^= za::c_castle(Player::Black, CastleRightsSide::Kingside); }
    if p.rights[1][1] { x ^= za::c_castle(Player::Black, CastleRightsSide::Queenside); }
    let mut e = 0u8;
    let mut xe = za::c_ep(None);
    while e < 64 { if p.ep == e { xe = za::c_ep(Some(Square::from_index(e))); } e += 1; }
    x ^= xe;
    if !p.white_to_move { x ^= za::c_side(); }
    x
}

/// the real from-scratch hash() is that XOR sum (bounded material: hash() loops over the pieces of each kind)
pub fn hash_is_xor_sum(per_kind: u32, pawns: u32) {
    load();
    let p = pos::any_valid();
    bound_pieces(&p, per_kind, pawns);
    #[cfg(test)] println!("REPLAY-CASE {{\"fen\":\"{}\"}}", pos::fen_of(&p));
    let g = pos::game_of(&p);
    assert!(zobrist::hash(&g).0 == xor_sum(&p));
    kani::cover!(p.ep < 64 && !p.white_to_move && p.rights[0][0]);
    std::mem::forget(g);
}

/// oracle-only lemma tying the two forms together: the XOR sums of the positions before and after ANY legal move
/// (or a null move) differ by exactly delta(before, after). No engine code involved; any material.
pub fn oracle_delta(kind: usize, side: u8) {
    load();
    let p = pos::any_valid();
    if side < 2 { kani::assume(p.white_to_move == (side == 0)); }
    // kind 7 = the null move
    let null = kind == 7;
    let q = if null {
        let mut q = p; q.white_to_move = !p.white_to_move; q.ep = 64; q
    } else {
        let (w, m) = step::any_legal(&p);
        if kind < 6 { kani::assume(m.kind == kind); }
        step::expected_after(&p, w, &m)
    };
    #[cfg(test)] println!("REPLAY-CASE {{\"fen\":\"{}\",\"fen2\":\"{}\"}}", pos::fen_of(&p), pos::fen_of(&q));
    assert!(xor_sum(&q) == xor_sum(&p) ^ delta(&p, &q));
    kani::cover!(true);
}

/// quick complement to hash_is_xor_sum: CONCRETE placement (so hash()'s loops run on constants), symbolic side, rights and
/// en-passant target (whatever is valid for that placement)
pub fn hash_on_placement(pcs: [[u64; 6]; 2]) {
    load();
    let p = BPos { pcs, white_to_move: kani::any(), rights: [[kani::any(), kani::any()], [kani::any(), kani::any()]], ep: kani::any() };
    kani::assume(pos::valid(&p));
    #[cfg(test)] println!("REPLAY-CASE {{\"fen\":\"{}\"}}", pos::fen_of(&p));
    let g = pos::game_of(&p);
    assert!(zobrist::hash(&g).0 == xor_sum(&p));
    kani::cover!(true);
    kani::cover!(p.ep < 64);
    std::mem::forget(g);
}

/// the component LOOK-UP FUNCTIONS are injective over all features and never return zero (real tables loaded):
/// two different features (piece-on-square / castling right / en-passant square or none / side) get different words.
/// (The z3 query on the dumped words says the table cells differ; this says the functions that index the tables do not alias.)
fn feature_word(fam: u8, a: u8, b: u8, c: u8) -> u64 {
    match fam {
        0 => za::c_piece(pos::player_of((a % 2) as usize), pos::kind_of((b % 6) as usize), Square::from_index(c % 64)),
        1 => za::c_castle(pos::player_of((a % 2) as usize), if b % 2 == 0 { CastleRightsSide::Kingside } else { CastleRightsSide::Queenside }),
        2 => za::c_ep(if c % 65 == 64 { None } else { Some(Square::from_index(c % 65)) }),
        _ => za::c_side(),
    }
}
fn feature_id(fam: u8, a: u8, b: u8, c: u8) -> u32 {
    match fam {
        0 => ((a % 2) as u32) * 384 + ((b % 6) as u32) * 64 + (c % 64) as u32,
        1 => 1000 + ((a % 2) as u32) * 2 + (b % 2) as u32,
        2 => 2000 + (c % 65) as u32,
        _ => 3000,
    }
}
#[kani::proof]
pub fn c03_lookup_injective() {
    load();
    let (f1, a1, b1, c1): (u8, u8, u8, u8) = (kani::any(), kani::any(), kani::any(), kani::any());
    let (f2, a2, b2, c2): (u8, u8, u8, u8) = (kani::any(), kani::any(), kani::any(), kani::any());
    kani::assume(f1 < 4 && f2 < 4);
    #[cfg(test)] println!("REPLAY-CASE {{\"f1\":[{},{},{},{}],\"f2\":[{},{},{},{}]}}", f1, a1, b1, c1, f2, a2, b2, c2);
    let (w1, w2) = (feature_word(f1, a1, b1, c1), feature_word(f2, a2, b2, c2));
    assert!(w1 != 0 && w2 != 0);
    if feature_id(f1, a1, b1, c1) != feature_id(f2, a2, b2, c2) { assert!(w1 != w2); }
    kani::cover!(f1 == 0 && f2 == 2);
}
