//! C06 (kernels) — FEN counters, and the board-field sub-parser on corrupted rank texts.
use crate::chess::fen::verif_access as fa;
use crate::chess::player::Player;

/// move number -> ply counter for EVERY u32 and both sides: never panics; inverse of Game::turn() on canonical numbers
#[kani::proof]
pub fn c06_plies_from_fullmove() {
    let n: u32 = kani::any();
    let black: bool = kani::any();
    #[cfg(test)] println!("REPLAY-CASE {{\"fullmove\":{},\"black\":{}}}", n, black);
    let plies = fa::plies(n, if black { Player::Black } else { Player::White });
    if n >= 1 && n <= (1 << 30) {
        // what fen::write prints back (Game::turn) is the number that was read, and the parity is the side to move
        assert!(plies / 2 + 1 == n);
        assert!((plies % 2 == 1) == black);
    }
    kani::cover!(n == 0);
    kani::cover!(n == u32::MAX);
}

/// board field "r1/r2/.../r8" built from a template with up to three arbitrary ASCII bytes: never panics, and
/// when accepted every rank between the slashes describes exactly eight squares
pub fn board_field(template: &[u8], free: [usize; 3]) {
    let mut buf = [0u8; 72];
    let n = template.len();
    let mut i = 0;
    while i < n { buf[i] = template[i]; i += 1; }
    let b: [u8; 3] = [kani::any(), kani::any(), kani::any()];
    let mut k = 0;
    while k < 3 { kani::assume(b[k] < 0x80 && b[k] >= 0x20); if free[k] < n { buf[free[k]] = b[k]; } k += 1; }
    let s = core::str::from_utf8(&buf[..n]).unwrap();
    #[cfg(test)] println!("REPLAY-CASE {{\"board_field\":{:?}}}", s);
    let r = fa::board_field(s);
    // independent width count
    let mut ok = true;
    let mut w = 0u32;
    let mut ranks = 0u32;
    let mut i = 0;
    while i < n {
        let c = buf[i];
        if c == b'/' { if w != 8 { ok = false; } w = 0; ranks += 1; }
        else if c >= b'1' && c <= b'8' { w += (c - b'0') as u32; }
        else { w += 1; }
        i += 1;
    }
    if w != 8 || ranks != 7 { ok = false; }
    if r.is_some() { assert!(ok); }
    kani::cover!(r.is_some());
    kani::cover!(r.is_none());
    core::mem::forget(r);
}
