//! C17 (kernels) — text <-> move: matching a long-algebraic move against the legal list, the
//! Move -> UciMove mapping, and the single-move parser on all short ASCII strings.
use super::pos;
use super::stubs::{move_of, raw_of};
use crate::chess::moves::{Move, MoveList, MoveListExt};
use crate::chess::piece::PromotionPieceKind;
use crate::chess::square::Square;
use crate::engine::uci::UciMove;

fn promo_of(i: u8) -> Option<PromotionPieceKind> {
    match i { 1 => Some(PromotionPieceKind::Knight), 2 => Some(PromotionPieceKind::Bishop), 3 => Some(PromotionPieceKind::Rook), 4 => Some(PromotionPieceKind::Queen), _ => None }
}
fn promo_idx(p: Option<PromotionPieceKind>) -> u8 {
    match p { None => 0, Some(PromotionPieceKind::Knight) => 1, Some(PromotionPieceKind::Bishop) => 2, Some(PromotionPieceKind::Rook) => 3, Some(PromotionPieceKind::Queen) => 4 }
}
/// only the twelve flag patterns the engine defines are moves (moves.rs Flags)
fn valid_flags(w: u16) -> bool {
    let f = (w >> 12) as u8;
    // bit0 capture, bit1 promotion, bits2..3 extra; without promotion: extra in {0, castle/ep = 1}
    if f & 2 != 0 { true } else { (f >> 2) <= 1 }
}

/// expect_matching returns an element with exactly the requested (src, dst, promotion) whenever one exists
/// (the "Illegal move" panic is reachable only when none does)
#[kani::proof]
#[kani::unwind(8)]
pub fn c17_expect_matching() {
    let n: usize = kani::any();
    kani::assume(n <= 5);
    let ws: [u16; 5] = [kani::any(), kani::any(), kani::any(), kani::any(), kani::any()];
    let mut list = MoveList::new();
    let mut i = 0;
    while i < n { kani::assume(ws[i] != 0 && valid_flags(ws[i])); list.push(move_of(ws[i])); i += 1; }
    let (src, dst, pr): (u8, u8, u8) = (kani::any(), kani::any(), kani::any());
    kani::assume(src < 64 && dst < 64 && pr <= 4);
    #[cfg(test)] println!("REPLAY-CASE {{\"list\":{:?},\"n\":{},\"src\":{},\"dst\":{},\"promo\":{}}}", ws, n, src, dst, pr);
    // does a matching element exist?
    let mut exists = false;
    let mut i = 0;
    while i < n {
        if pos::raw_src(ws[i]) == src && pos::raw_dst(ws[i]) == dst && pos::raw_promo(ws[i]) == pr { exists = true; }
        i += 1;
    }
    kani::assume(exists); // otherwise the documented panic "Illegal move"
    let m = list.expect_matching(Square::from_index(src), Square::from_index(dst), promo_of(pr));
    let w = raw_of(m);
    assert!(pos::raw_src(w) == src && pos::raw_dst(w) == dst && pos::raw_promo(w) == pr);
    let mut found = false;
    let mut i = 0;
    while i < n { if ws[i] == w { found = true; } i += 1; }
    assert!(found);
    kani::cover!(n == 5 && pr != 0);
    std::mem::forget(list);
}

/// Move -> UciMove keeps source, destination and promotion piece for every move encoding
#[kani::proof]
pub fn c17_from_move() {
    let w: u16 = kani::any();
    kani::assume(w != 0 && valid_flags(w));
    #[cfg(test)] println!("REPLAY-CASE {{\"move\":{}}}", w);
    let u = UciMove::from(move_of(w));
    assert!(u.src.idx() == pos::raw_src(w) && u.dst.idx() == pos::raw_dst(w) && promo_idx(u.promotion) == pos::raw_promo(w));
    kani::cover!(pos::raw_promo(w) == 3);
}

/// the single-move parser accepts exactly [a-h][1-8][a-h][1-8][nbrq]? (lower case) with the right squares,
/// on ALL ASCII strings of length 4 and 5
pub fn uci_move_text(len: usize) {
    let b: [u8; 5] = [kani::any(), kani::any(), kani::any(), kani::any(), kani::any()];
    let mut i = 0;
    while i < 5 { kani::assume(b[i] < 0x80); i += 1; }
    let s = core::str::from_utf8(&b[..len]).unwrap();
    #[cfg(test)] println!("REPLAY-CASE {{\"text\":{:?}}}", s);
    let file = |c: u8| c >= b'a' && c <= b'h';
    let rank = |c: u8| c >= b'1' && c <= b'8';
    let squares_ok = file(b[0]) && rank(b[1]) && file(b[2]) && rank(b[3]);
    let pr: u8 = if len == 5 { match b[4] { b'n' => 1, b'b' => 2, b'r' => 3, b'q' => 4, _ => 0 } } else { 0 };
    let got = crate::engine::uci::parser::verif_access::uci_move_parse(s);
    match got {
        None => assert!(!squares_ok),
        Some((m, rest)) => {
            assert!(squares_ok);
            assert!(m.src.idx() == (b[0] - b'a') + 8 * (b[1] - b'1'));
            assert!(m.dst.idx() == (b[2] - b'a') + 8 * (b[3] - b'1'));
            assert!(promo_idx(m.promotion) == pr);
            // a promotion letter is consumed exactly when it is one of n b r q (lower case)
            assert!(rest == if len == 5 && pr == 0 { 1 } else { 0 });
        }
    }
    kani::cover!(got.is_some() && (len == 4 || pr == 2));
}

// ---------------------------------------------------------------------------------------------
// the `position` command handler itself (Uci::execute, Position branch), one move from ANY valid position
// ---------------------------------------------------------------------------------------------
use super::step;
use crate::chess::game::Game;
use crate::engine::uci::commands::{Position, UciCommand};
use crate::engine::uci::verif_access as ua;

static mut STASH: Option<Game> = None;
static mut WATCHED: u16 = 0;

/// contract stub of `Game::from_fen` (reading FEN text is C06's subject and string code): hands back the arbitrary valid game
pub fn stub_from_fen(_fen: &str) -> Result<Game, String> {
    unsafe { match (*core::ptr::addr_of_mut!(STASH)).take() { Some(g) => Ok(g), None => Err(String::new()) } }
}
/// contract stub of `Game::moves` (C01: exactly the legal moves): a list that contains the oracle-legal watched move at an
/// arbitrary place among two other arbitrary moves (legal moves of one position differ in (source, destination, promotion))
#[cfg(kani)]
pub fn stub_moves(_g: &Game) -> MoveList {
    let w = unsafe { WATCHED };
    let (o0, o1, k): (u16, u16, u8) = (kani::any(), kani::any(), kani::any());
    let differs = |o: u16| o != 0 && valid_flags(o) && !(pos::raw_src(o) == pos::raw_src(w) && pos::raw_dst(o) == pos::raw_dst(w) && pos::raw_promo(o) == pos::raw_promo(w));
    kani::assume(differs(o0) && differs(o1) && k < 3);
    let (a, b, c) = match k { 0 => (w, o0, o1), 1 => (o0, w, o1), _ => (o0, o1, w) };
    let mut list = MoveList::new();
    list.push(move_of(a));
    list.push(move_of(b));
    list.push(move_of(c));
    list
}

/// `position fen <F> moves <m>`: the handler ends in exactly the game reached by playing the legal move whose long-algebraic
/// text is <m> from <F> (placement, side, rights, ep target, clocks, history length, all three board views)
pub fn position_cmd(kind: usize, side: u8) {
    let (pre, g, w, m) = step::any_case(kind, side);
    #[allow(unused_mut)] let mut pre = pre;
    let sq: usize = kani::any();
    kani::assume(sq < 64);
    let um = UciMove::from(move_of(w));
    #[cfg(not(test))]
    let (fen, mut uci) = {
        let uci = ua::mk_uci(pos::game_of(&pre.p));
        unsafe { STASH = Some(g); WATCHED = w; }
        (String::new(), uci)
    };
    #[cfg(test)]
    let (fen, mut uci) = {
        // native replay: no stubs - the real FEN reader and the real generator run; counters come from the parsed game
        std::mem::forget(g);
        let fen = format!("{} 0 1", pos::fen_of(&pre.p));
        println!("REPLAY-CASE {{\"fen\":\"{}\",\"move\":\"{}\"}}", fen, pos::move_text(w));
        let g0 = Game::from_fen(&fen).unwrap();
        pre.clock = g0.halfmove_clock;
        pre.plies = g0.plies;
        pre.hist_len = g0.history.len();
        (fen, ua::mk_uci(Game::new()))
    };
    let cmd = UciCommand::Position { position: Position::Fen(fen), moves: vec![um] };
    let ok = ua::execute_ok(&mut uci, &cmd);
    assert!(ok);
    let want = step::expected_after(&pre.p, w, &m);
    assert!(step::game_is(ua::game(&uci), &want, step::expected_clock(&pre, &m), pre.plies + 1, pre.hist_len + 1, sq));
    kani::cover!(true);
    kani::cover!(m.ep);
    kani::cover!(m.capture && pos::raw_promo(w) != 0);
    std::mem::forget(uci);
    std::mem::forget(cmd);
}

/// Kani 0.68 panics while compiling the `catch_unwind` intrinsic of its own toolchain (generic, returns bool), which the drop glue
/// of `JoinHandle<()>` in the `go` branch of `Uci::execute` reaches; panics abort under Kani anyway, so running the closure
/// directly is the same behaviour. Not reachable from the `position` branch.
pub unsafe fn stub_catch_unwind<T>(try_fn: fn(*mut T), data: *mut T, _catch_fn: fn(*mut T, *mut u8)) -> bool { try_fn(data); false }
