//! C17 (kernels) — text <-> move: matching a long-algebraic move against the legal list, the
//! Move -> UciMove mapping, and the single-move parser on all short ASCII strings.
use super::pos;
use super::stubs::{move_of, raw_of};
use crate::chess::moves::{Move, MoveList, MoveListExt};
use crate::chess::piece::PromotionPieceKind;
use crate::chess::square::Square;
use crate::engine::uci::UciMove;

fn promo_of(i: u8) -> Option<PromotionPieceKind> {
    match i { 1 => Some(PromotionPieceKind::Knight), 2 => Some(PromotionPieceKind::Bishop), 3 => Some(PromotionPieceKind::Rook), 4 => Some(PromotionPieceKind::Queen), _ => None }
}
fn promo_idx(p: Option<PromotionPieceKind>) -> u8 {
    match p { None => 0, Some(PromotionPieceKind::Knight) => 1, Some(PromotionPieceKind::Bishop) => 2, Some(PromotionPieceKind::Rook) => 3, Some(PromotionPieceKind::Queen) => 4 }
}
/// only the twelve flag patterns the engine defines are moves (moves.rs Flags)
fn valid_flags(w: u16) -> bool {
    let f = (w >> 12) as u8;
    // bit0 capture, bit1 promotion, bits2..3 extra; without promotion: extra in {0, castle/ep = 1}
    if f & 2 != 0 { true } else { (f >> 2) <= 1 }
}

/// expect_matching returns an element with exactly the requested (src, dst, promotion) whenever one exists
/// (the "Illegal move" panic is reachable only when none does)
#[kani::proof]
#[kani::unwind(8)]
pub fn c17_expect_matching() {
    let n: usize = kani::any();
    kani::assume(n <= 5);
    let ws: [u16; 5] = [kani::any(), kani::any(), kani::any(), kani::any(), kani::any()];
    let mut list = MoveList::new();
    let mut i = 0;
    while i < n { kani::assume(ws[i] != 0 && valid_flags(ws[i])); list.push(move_of(ws[i])); i += 1; }
    let (src, dst, pr): (u8, u8, u8) = (kani::any(), kani::any(), kani::any());
    kani::assume(src < 64 && dst < 64 && pr <= 4);
    #[cfg(test)] println!("REPLAY-CASE {{\"list\":{:?},\"n\":{},\"src\":{},\"dst\":{},\"promo\":{}}}", ws, n, src, dst, pr);
    // does a matching element exist?
    let mut exists = false;
    let mut i = 0;
    while i < n {
        if pos::raw_src(ws[i]) == src && pos::raw_dst(ws[i]) == dst && pos::raw_promo(ws[i]) == pr { exists = true; }
        i += 1;
    }
    kani::assume(exists); // otherwise the documented panic "Illegal move"
    let m = list.expect_matching(Square::from_index(src), Square::from_index(dst), promo_of(pr));
    let w = raw_of(m);
    assert!(pos::raw_src(w) == src && pos::raw_dst(w) == dst && pos::raw_promo(w) == pr);
    let mut found = false;
    let mut i = 0;
    while i < n { if ws[i] == w { found = true; } i += 1; }
    assert!(found);
    kani::cover!(n == 5 && pr != 0);
    std::mem::forget(list);
}

/// Move -> UciMove keeps source, destination and promotion piece for every move encoding
#[kani::proof]
pub fn c17_from_move() {
    let w: u16 = kani::any();
    kani::assume(w != 0 && valid_flags(w));
    #[cfg(test)] println!("REPLAY-CASE {{\"move\":{}}}", w);
    let u = UciMove::from(move_of(w));
    assert!(u.src.idx() == pos::raw_src(w) && u.dst.idx() == pos::raw_dst(w) && promo_idx(u.promotion) == pos::raw_promo(w));
    kani::cover!(pos::raw_promo(w) == 3);
}

/// the single-move parser accepts exactly [a-h][1-8][a-h][1-8][nbrq]? (lower case) with the right squares,
/// on ALL ASCII strings of length 4 and 5
pub fn uci_move_text(len: usize) {
    let b: [u8; 5] = [kani::any(), kani::any(), kani::any(), kani::any(), kani::any()];
    let mut i = 0;
    while i < 5 { kani::assume(b[i] < 0x80); i += 1; }
    let s = core::str::from_utf8(&b[..len]).unwrap();
    #[cfg(test)] println!("REPLAY-CASE {{\"text\":{:?}}}", s);
    let file = |c: u8| c >= b'a' && c <= b'h';
    let rank = |c: u8| c >= b'1' && c <= b'8';
    let squares_ok = file(b[0]) && rank(b[1]) && file(b[2]) && rank(b[3]);
    let pr: u8 = if len == 5 { match b[4] { b'n' => 1, b'b' => 2, b'r' => 3, b'q' => 4, _ => 0 } } else { 0 };
    let got = crate::engine::uci::parser::verif_access::uci_move_parse(s);
    match got {
        None => assert!(!squares_ok),
        Some((m, rest)) => {
            assert!(squares_ok);
            assert!(m.src.idx() == (b[0] - b'a') + 8 * (b[1] - b'1'));
            assert!(m.dst.idx() == (b[2] - b'a') + 8 * (b[3] - b'1'));
            assert!(promo_idx(m.promotion) == pr);
            // a promotion letter is consumed exactly when it is one of n b r q (lower case)
            assert!(rest == if len == 5 && pr == 0 { 1 } else { 0 });
        }
    }
    kani::cover!(got.is_some() && (len == 4 || pr == 2));
}
