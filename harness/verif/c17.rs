//! C17 (kernels) — text <-> move: matching a long-algebraic move against the legal list, the
//! Move -> UciMove mapping, and the single-move parser on all short ASCII strings.
use super::pos;
use super::stubs::{move_of, raw_of};
use crate::chess::moves::{Move, MoveList, MoveListExt};
use crate::chess::piece::PromotionPieceKind;
use crate::chess::square::Square;
use crate::engine::uci::UciMove;

fn promo_of(i: u8) -> Option<PromotionPieceKind> {
    match i { 1 => Some(PromotionPieceKind::Knight), 2 => Some(PromotionPieceKind::Bishop), 3 => Some(PromotionPieceKind::Rook), 4 => Some(PromotionPieceKind::Queen), _ => None }
}
fn promo_idx(p: Option<PromotionPieceKind>) -> u8 {
    match p { None => 0, Some(PromotionPieceKind::Knight) => 1, Some(PromotionPieceKind::Bishop) => 2, Some(PromotionPieceKind::Rook) => 3, Some(PromotionPieceKind::Queen) => 4 }
}
/// only the twelve flag patterns the engine defines are moves (moves.rs Flags)
fn valid_flags(w: u16) -> bool {
    let f = (w >> 12) as u8;
    // bit0 capture, bit1 promotion, bits2..3 extra; without promotion: extra in {0, castle/ep = 1}
    if f & 2 != 0 { true } else { (f >> 2) <= 1 }
}

/// expect_matching returns an element with exactly the requested (src, dst, promotion) whenever one exists
/// (the "Illegal move" panic is reachable only when none does)
#[kani::proof]
#[kani::unwind(8)]
pub fn c17_expect_matching() {
    let n: usize = kani::any();
    kani::assume(n <= 5);
    let ws: [u16; 5] = [kani::any(), kani::any(), kani::any(), kani::any(), kani::any()];
    let mut list = MoveList::new();
    let mut i = 0;
    while i < n { kani::assume(ws[i] != 0 && valid_flags(ws[i])); list.push(move_of(ws[i])); i += 1; }
    let (src, dst, pr): (u8, u8, u8) = (kani::any(), kani::any(), kani::any());
    kani::assume(src < 64 && dst < 64 && pr <= 4);
    #[cfg(test)] println!("REPLAY-CASE {{\"list\":{:?},\"n\":{},\"src\":{},\"dst\":{},\"promo\":{}}}", ws, n, src, dst, pr);
    // does a matching element exist?
    let mut exists = false;
    let mut i = 0;
    while i < n {
        if pos::raw_src(ws[i]) == src && pos::raw_dst(ws[i]) == dst && pos::raw_promo(ws[i]) == pr { exists = true; }
        i += 1;
    }
    kani::assume(exists); // otherwise the documented panic "Illegal move"
    let m = list.expect_matching(Square::from_index(src), Square::from_index(dst), promo_of(pr));
    let w = raw_of(m);
    assert!(pos::raw_src(w) == src && pos::raw_dst(w) == dst && pos::raw_promo(w) == pr);
    let mut found = false;
    let mut i = 0;
    while i < n { if ws[i] == w { found = true; } i += 1; }
    assert!(found);
    kani::cover!(n == 5 && pr != 0);
    std::mem::forget(list);
}

/// Move -> UciMove keeps source, destination and promotion piece for every move encoding
#[kani::proof]
pub fn c17_from_move() {
    let w: u16 = kani::any();
    kani::assume(w != 0 && valid_flags(w));
    #[cfg(test)] println!("REPLAY-CASE {{\"move\":{}}}", w);
    let u = UciMove::from(move_of(w));
    assert!(u.src.idx() == pos::raw_src(w) && u.dst.idx() == pos::raw_dst(w) && promo_idx(u.promotion) == pos::raw_promo(w));
    kani::cover!(pos::raw_promo(w) == 3);
}

/// the single-move parser accepts exactly [a-h][1-8][a-h][1-8][nbrq]? (lower case) with the right squares,
/// on ALL ASCII strings of length 4 and 5
pub fn uci_move_text(len: usize) {
    let b: [u8; 5] = [kani::any(), kani::any(), kani::any(), kani::any(), kani::any()];
    let mut i = 0;
    while i < 5 { kani::assume(b[i] < 0x80); i += 1; }
    let s = core::str::from_utf8(&b[..len]).unwrap();
    #[cfg(test)] println!("REPLAY-CASE {{\"text\":{:?}}}", s);
    let file = |c: u8| c >= b'a' && c <= b'h';
    let rank = |c: u8| c >= b'1' && c <= b'8';
    let squares_ok = file(b[0]) && rank(b[1]) && file(b[2]) && rank(b[3]);
    let pr: u8 = if len == 5 { match b[4] { b'n' => 1, b'b' => 2, b'r' => 3, b'q' => 4, _ => 0 } } else { 0 };
    let got = crate::engine::uci::parser::verif_access::uci_move_parse(s);
    match got {
        None => assert!(!squares_ok),
        Some((m, rest)) => {
            assert!(squares_ok);
            assert!(m.src.idx() == (b[0] - b'a') + 8 * (b[1] - b'1'));
            assert!(m.dst.idx() == (b[2] - b'a') + 8 * (b[3] - b'1'));
            assert!(promo_idx(m.promotion) == pr);
            // a promotion letter is consumed exactly when it is one of n b r q (lower case)
            assert!(rest == if len == 5 && pr == 0 { 1 } else { 0 });
        }
    }
    kani::cover!(got.is_some() && (len == 4 || pr == 2));
}

// ---------------------------------------------------------------------------------------------
// the `position` command handler itself (Uci::execute, Position branch), one move from ANY valid position
// ---------------------------------------------------------------------------------------------
use super::step;
use crate::chess::game::Game;
use crate::engine::uci::commands::{Position, UciCommand};
use crate::engine::uci::verif_access as ua;

static mut STASH: [Option<Game>; 2] = [None, None];
static mut WATCHED: [u16; 2] = [0, 0];

/// contract stub of `Game::from_fen` (reading FEN text is C06's subject and string code): hands back the arbitrary valid game the
/// harness prepared for this command (no earlier moves in it, as after the real reader)
pub fn stub_from_fen(_fen: &str) -> Result<Game, String> {
    unsafe {
        let st = &mut *core::ptr::addr_of_mut!(STASH);
        if let Some(g) = st[0].take() { return Ok(g); }
        match st[1].take() { Some(g) => Ok(g), None => Err(String::new()) }
    }
}
fn same_triple(a: u16, b: u16) -> bool { pos::raw_src(a) == pos::raw_src(b) && pos::raw_dst(a) == pos::raw_dst(b) && pos::raw_promo(a) == pos::raw_promo(b) }
/// contract stub of `Game::moves` (C01: exactly the legal moves): a 3-element list that contains the oracle-legal watched move(s) at
/// arbitrary places among arbitrary other moves (legal moves of one position differ in (source, destination, promotion))
#[cfg(kani)]
pub fn stub_moves(_g: &Game) -> MoveList {
    let (w, w2) = unsafe { (WATCHED[0], WATCHED[1]) };
    let (o0, o1, k): (u16, u16, u8) = (kani::any(), kani::any(), kani::any());
    let differs = |o: u16| o != 0 && valid_flags(o) && !same_triple(o, w) && (w2 == 0 || !same_triple(o, w2));
    kani::assume(differs(o0) && differs(o1) && !same_triple(o0, o1) && k < 3);
    let second = if w2 != 0 && w2 != w { w2 } else { o1 };
    let (a, b, c) = match k { 0 => (w, o0, second), 1 => (o0, second, w), _ => (second, w, o0) };
    let mut list = MoveList::new();
    list.push(move_of(a));
    list.push(move_of(b));
    list.push(move_of(c));
    list
}

/// The real `position` handler. pattern 0: `position fen <F> moves <m>` on a fresh engine; 1: `... moves <m>` then `position fen <F>`
/// (take-back); 2: `position fen <F>` then `... moves <m>` (the GUI extends the game); 3: `... moves <m>` then `... moves <m2>` (same or
/// another move). In every case the engine must end in exactly the game reached by playing the LAST command's moves from <F>
/// (placement, side, rights, ep target, clocks, history length, all three board views): a position command rebuilds from scratch.
pub fn position_cmd(kind: usize, side: u8, pattern: u8) {
    let (pre, g, w, m) = step::any_case(kind, side);
    #[allow(unused_mut)] let mut pre = pre;
    #[allow(unused_mut)] let mut g = g;
    // as after the real FEN reader: no earlier moves
    if let Some(e) = g.history.pop() { std::mem::forget(e); }
    pre.hist_len = 0;
    let sq: usize = kani::any();
    kani::assume(sq < 64);
    // the second command's move (pattern 3): any legal move of the same position, possibly the same one
    let (w2, m2) = if pattern == 3 { step::any_legal(&pre.p) } else { (w, m) };
    let um = UciMove::from(move_of(w));
    let um2 = UciMove::from(move_of(w2));
    #[cfg(not(test))]
    let (fen, fen2, mut uci) = {
        // the engine holds some OTHER game before the first command (natively: the start position); keys of different positions
        // differ (C03), keys of the same position are equal: the key is a symbolic function value here because the toggles are no-ops
        let (z0, zf): (u64, u64) = (kani::any(), kani::any());
        kani::assume(z0 != zf);
        let kings = pos::BPos { pcs: [[0, 0, 0, 0, 0, 1 << 4], [0, 0, 0, 0, 0, 1 << 60]], white_to_move: true, rights: [[false; 2]; 2], ep: 64 };
        let mut held = pos::game_of(&kings);
        held.zobrist = crate::chess::zobrist::ZobristHash(z0);
        let uci = ua::mk_uci(held);
        g.zobrist = crate::chess::zobrist::ZobristHash(zf);
        let g2 = g.clone();
        unsafe { STASH = [Some(g), if pattern == 0 { std::mem::forget(g2); None } else { Some(g2) }]; WATCHED = [w, if pattern == 3 { w2 } else { 0 }]; }
        (String::new(), String::new(), uci)
    };
    #[cfg(test)]
    let (fen, fen2, mut uci) = {
        // native replay: no stubs - the real FEN reader and the real generator run; counters come from the parsed game
        std::mem::forget(g);
        let fen = format!("{} 0 1", pos::fen_of(&pre.p));
        println!("REPLAY-CASE {{\"pattern\":{},\"fen\":\"{}\",\"move\":\"{}\",\"move2\":\"{}\"}}", pattern, fen, pos::move_text(w), pos::move_text(w2));
        let g0 = Game::from_fen(&fen).unwrap();
        pre.clock = g0.halfmove_clock;
        pre.plies = g0.plies;
        pre.hist_len = g0.history.len();
        (fen.clone(), fen, ua::mk_uci(Game::new()))
    };
    let (first, second): (Vec<UciMove>, Option<Vec<UciMove>>) = match pattern {
        0 => (vec![um], None),
        1 => (vec![um], Some(Vec::new())),
        2 => (Vec::new(), Some(vec![um])),
        _ => (vec![um], Some(vec![um2])),
    };
    let cmd = UciCommand::Position { position: Position::Fen(fen), moves: first };
    let ok = ua::execute_ok(&mut uci, &cmd);
    assert!(ok);
    let (last_w, last_m, played) = match pattern { 1 => (w, m, false), 3 => (w2, m2, true), _ => (w, m, true) };
    if let Some(moves2) = second {
        let cmd2 = UciCommand::Position { position: Position::Fen(fen2), moves: moves2 };
        let ok2 = ua::execute_ok(&mut uci, &cmd2);
        assert!(ok2);
        std::mem::forget(cmd2);
    } else {
        std::mem::forget(fen2);
    }
    if played {
        let want = step::expected_after(&pre.p, last_w, &last_m);
        assert!(step::game_is(ua::game(&uci), &want, step::expected_clock(&pre, &last_m), pre.plies + 1, pre.hist_len + 1, sq));
    } else {
        assert!(step::game_is(ua::game(&uci), &pre.p, pre.clock, pre.plies, pre.hist_len, sq));
    }
    kani::cover!(true);
    kani::cover!(m.ep);
    kani::cover!(m.capture && pos::raw_promo(w) != 0);
    std::mem::forget(uci);
    std::mem::forget(cmd);
}

/// Kani 0.68 panics while compiling the `catch_unwind` intrinsic of its own toolchain (generic, returns bool), which the drop glue
/// of `JoinHandle<()>` in the `go` branch of `Uci::execute` reaches; panics abort under Kani anyway, so running the closure
/// directly is the same behaviour. Not reachable from the `position` branch.
pub unsafe fn stub_catch_unwind<T>(try_fn: fn(*mut T), data: *mut T, _catch_fn: fn(*mut T, *mut u8)) -> bool { try_fn(data); false }
