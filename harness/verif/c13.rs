//! C13 (kernels) — every advertised spin option value is accepted, and the table size derived
//! from every advertised Hash value is usable. Ranges are READ from the real declarations.
use crate::engine::options::EngineOptions;
use crate::engine::search::transposition::SearchTranspositionTableData;
use crate::engine::transposition_table::calculate_number_of_entries;
use crate::engine::uci::verif_access::{HashOption, MoveOverheadOption, ThreadsOption, UciOption, UciOptionType};

fn range_of(def: &UciOptionType) -> (usize, usize, usize) {
    match def { UciOptionType::Spin { default, min, max } => (*min, *max, *default), _ => panic!("not a spin option") }
}

#[kani::proof]
pub fn c13_hash_entries() {
    let (min, max, default) = range_of(&HashOption::DEF);
    assert!(min <= default && default <= max);
    let mb: usize = kani::any();
    kani::assume(mb >= min && mb <= max);
    #[cfg(test)] println!("REPLAY-CASE {{\"option\":\"Hash\",\"mb\":{}}}", mb);
    let n = calculate_number_of_entries::<SearchTranspositionTableData>(mb);
    // the slot index is key % n: n must never be 0
    assert!(n >= 1);
    assert!(n as u128 * 16 <= core::cmp::max(16, mb as u128 * 1024 * 1024));
    if mb >= 1 { assert!(n == mb * 65536); }
    kani::cover!(mb == min);
    kani::cover!(mb == max);
}

/// decimal text of up to 4 digits
fn any_decimal(buf: &mut [u8; 4]) -> (usize, usize) {
    let len: usize = kani::any();
    kani::assume(len >= 1 && len <= 4);
    let mut v = 0usize;
    let mut i = 0;
    while i < 4 {
        let d: u8 = kani::any();
        kani::assume(d <= 9);
        buf[i] = b'0' + d;
        if i < len { v = v * 10 + d as usize; }
        i += 1;
    }
    // canonical: no leading zero unless the number is 0
    kani::assume(len == 1 || buf[0] != b'0');
    (len, v)
}

/// error paths of the setters build their messages with format!; message text is not the subject
pub fn stub_format(_a: core::fmt::Arguments<'_>) -> String { String::new() }

fn set_all(which: u8) {
    let mut buf = [0u8; 4];
    let (len, v) = any_decimal(&mut buf);
    let (min, max, _) = match which { 0 => range_of(&HashOption::DEF), 1 => range_of(&ThreadsOption::DEF), _ => range_of(&MoveOverheadOption::DEF) };
    kani::assume(v >= min && v <= max);
    let text = core::str::from_utf8(&buf[..len]).unwrap();
    #[cfg(test)] println!("REPLAY-CASE {{\"option\":{},\"text\":\"{}\"}}", which, text);
    let mut o = EngineOptions { hash_size: 1, threads: 1, move_overhead: 0, syzygy_path: None };
    match which {
        0 => { let r = HashOption::set(&mut o, text); assert!(r == Ok(v)); assert!(o.hash_size == v); }
        1 => { let r = ThreadsOption::set(&mut o, text); assert!(r.is_ok()); assert!(o.threads == v); }
        _ => { let r = MoveOverheadOption::set(&mut o, text); assert!(r.is_ok()); assert!(o.move_overhead == v); }
    }
    kani::cover!(v == max);
    kani::cover!(v == min);
}

#[kani::proof]
#[kani::unwind(6)]
#[kani::stub(alloc::fmt::format, stub_format)]
pub fn c13_set_hash() { set_all(0); }
#[kani::proof]
#[kani::unwind(6)]
#[kani::stub(alloc::fmt::format, stub_format)]
pub fn c13_set_threads() { set_all(1); }
#[kani::proof]
#[kani::unwind(6)]
#[kani::stub(alloc::fmt::format, stub_format)]
pub fn c13_set_move_overhead() { set_all(2); }

// ---------------------------------------------------------------------------------------------
// command level: the real `Uci::execute(SetOption)` before a search (`control` = None) and between searches
// (`control` = Some: the handle of an earlier `go` is only cleared by `stop`)
// ---------------------------------------------------------------------------------------------
use crate::engine::uci::commands::UciCommand;
use crate::engine::uci::verif_access as ua;

/// see c17.rs: Kani 0.68 cannot compile the toolchain's `catch_unwind` intrinsic (reached from the `go` branch's JoinHandle drop glue)
pub unsafe fn stub_catch_unwind<T>(try_fn: fn(*mut T), data: *mut T, _catch_fn: fn(*mut T, *mut u8)) -> bool { try_fn(data); false }

fn setoption_cmd(which: u8) {
    let mut buf = [0u8; 4];
    let (len, v) = any_decimal(&mut buf);
    let (min, max, _) = match which { 0 => range_of(&HashOption::DEF), 1 => range_of(&ThreadsOption::DEF), _ => range_of(&MoveOverheadOption::DEF) };
    kani::assume(v >= min && v <= max);
    // Hash: the engine under test holds the smallest table (0 MB); only the value that keeps that size is sent, because any other
    // value runs Vec::resize over value * 65536 slots (outside reach - stated in the bounds)
    if which == 0 { kani::assume(v == 0); }
    let text = core::str::from_utf8(&buf[..len]).unwrap();
    let earlier_go: bool = kani::any();
    #[cfg(test)] println!("REPLAY-CASE {{\"option\":{},\"text\":\"{}\",\"earlier_go\":{}}}", which, text, earlier_go);
    let kings = super::pos::BPos { pcs: [[0, 0, 0, 0, 0, 1 << 4], [0, 0, 0, 0, 0, 1 << 60]], white_to_move: true, rights: [[false; 2]; 2], ep: 64 };
    let mut uci = ua::mk_uci(super::pos::game_of(&kings));
    ua::set_hash_size(&mut uci, 0);
    ua::set_control(&mut uci, earlier_go);
    let name = match which { 0 => HashOption::NAME, 1 => ThreadsOption::NAME, _ => MoveOverheadOption::NAME };
    let cmd = UciCommand::SetOption { name: String::from(name), value: String::from(text) };
    let ok = ua::execute_ok(&mut uci, &cmd);
    assert!(ok); // an Err ends the engine's main loop
    let o = ua::options(&uci);
    match which { 0 => assert!(o.hash_size == v), 1 => assert!(o.threads == v), _ => assert!(o.move_overhead == v) }
    assert!(ua::table_slots(&uci) >= 1);
    kani::cover!(earlier_go);
    kani::cover!(!earlier_go && v == max);
    std::mem::forget(uci);
    std::mem::forget(cmd);
}

#[kani::proof]
#[kani::unwind(6)]
#[kani::stub(alloc::fmt::format, stub_format)]
#[kani::stub(std::intrinsics::catch_unwind, stub_catch_unwind)]
pub fn c13_setoption_cmd_hash() { setoption_cmd(0); }
#[kani::proof]
#[kani::unwind(16)]
#[kani::stub(alloc::fmt::format, stub_format)]
#[kani::stub(std::intrinsics::catch_unwind, stub_catch_unwind)]
pub fn c13_setoption_cmd_threads() { setoption_cmd(1); }
#[kani::proof]
#[kani::unwind(16)]
#[kani::stub(alloc::fmt::format, stub_format)]
#[kani::stub(std::intrinsics::catch_unwind, stub_catch_unwind)]
pub fn c13_setoption_cmd_move_overhead() { setoption_cmd(2); }
