//! C10 — the staged move picker yields every legal move exactly once, for EVERY content of
//! the ordering tables (hash move, killers, counter move, history scores); position concrete.
use super::pos::{self, BPos};
use super::stubs::{move_of, raw_of};
use crate::chess::game::{CastleRights, Game, History};
use crate::chess::moves::{Move, MoveList};
use crate::chess::player::{ByPlayer, Player};
use crate::chess::zobrist::ZobristHash;
use crate::engine::eval::{IncrementalEvalFields, PhasedEval};
use crate::engine::options::EngineOptions;
use crate::engine::search::move_picker::MovePicker;
use crate::engine::search::time_control::TimeStrategy;
use crate::engine::search::transposition::SearchTranspositionTableData;
use crate::engine::search::verif_access as sa;
use crate::engine::search::{SearchContext, SearchRestrictions, TimeControl};
use crate::engine::transposition_table::verif_access as tta;
use crate::engine::transposition_table::TranspositionTable;
use std::time::Instant;

pub fn stub_now() -> Instant { unsafe { core::mem::zeroed() } }
/// arbitrary history score for every look-up (a superset of all table contents)
pub fn stub_history_get(_h: &sa::HistoryTable, _p: Player, _m: Move) -> i32 {
    let v: i32 = kani::any();
    kani::assume(v >= 0 && v <= sa::HISTORY_MAX_SCORE);
    v
}

pub const MAXN: usize = 64;

fn any_opt_move() -> Option<Move> { let w: u16 = kani::any(); if w == 0 { None } else { Some(move_of(w)) } }

/// run a picker to exhaustion on a concrete position with symbolic ordering tables
pub fn run(p: &BPos, loud: bool, n_legal: usize) {
    let mut game = pos::game_of(p);
    // the previous move only selects the counter-move cell; fixed (e7e5 / none) so that the 8192-cell table is indexed concretely
    let has_prev: bool = kani::any();
    let prev = if has_prev { Some(move_of(52 | (36 << 6))) } else { None };
    game.history.push(History {
        mv: prev, captured: None, castle_rights: ByPlayer::new(CastleRights::none(), CastleRights::none()),
        en_passant_target: None, halfmove_clock: 0, zobrist: ZobristHash(0),
        incremental_eval: IncrementalEvalFields { phase_value: 0, piece_square_tables: PhasedEval::ZERO },
    });
    let mut legal = MoveList::new();
    crate::chess::movegen::generate_legal_moves(&game, &mut legal);
    assert!(legal.len() == n_legal); // the driver's count for this FEN (keeps the unwind bound honest)
    let options = EngineOptions { hash_size: 1, threads: 1, move_overhead: 0, syzygy_path: None };
    let restrictions = SearchRestrictions { depth: None };
    let (mut ts, ctl) = TimeStrategy::new(&game, &TimeControl::Infinite, &options);
    let tt: TranspositionTable<SearchTranspositionTableData> = tta::from_parts(Vec::new(), 0, 0, 0);
    let mut ps = sa::persistent_from(tt, sa::HistoryTable::new());
    let mut ctx = SearchContext::new(&mut ps, &mut ts, &options, &restrictions);
    // the ply only selects the killer slot; fixed
    let plies: u8 = 3;
    // killers: any two remembered moves (legal here or not, equal or not, present or not)
    let k1 = any_opt_move();
    let k0 = any_opt_move();
    sa::tables::killers_set(&mut ctx.killer_moves, plies as usize, [k0, k1]);
    // counter move: anything
    if let (Some(pm), Some(cm)) = (prev, any_opt_move()) { ctx.countermove_table.set(game.player, pm, cm); }
    // hash move: none, or any legal move
    let use_hash: bool = kani::any();
    let hi: usize = kani::any();
    kani::assume(hi < n_legal);
    let hash_move = if use_hash && !loud { Some(legal[hi]) } else { None };
    #[cfg(test)] println!("REPLAY-CASE {{\"fen\":\"{}\",\"loud\":{},\"hash\":{:?},\"killers\":[{:?},{:?}],\"prev\":{:?},\"plies\":{}}}", pos::fen_of(p), loud, hash_move, k0, k1, prev, plies);
    let mut picker = if loud { MovePicker::new_loud() } else { MovePicker::new(hash_move) };
    let mut out = [0u16; MAXN];
    let mut n = 0usize;
    let mut steps = 0usize;
    while steps <= n_legal {
        match picker.next(&game, &ctx, plies) {
            Some(m) => { assert!(n < MAXN); out[n] = raw_of(m); n += 1; }
            None => break,
        }
        steps += 1;
    }
    assert!(steps <= n_legal); // the stream ended (no more than n_legal yields)
    // every yielded move is legal and yielded once; every legal move (full) / capture or queen promotion (loud) is yielded
    let mut i = 0;
    while i < n_legal {
        let m = raw_of(legal[i]);
        let mut cnt = 0;
        let mut j = 0;
        while j < n { if out[j] == m { cnt += 1; } j += 1; }
        if loud {
            assert!(cnt <= 1);
            let must = legal[i].is_capture() || legal[i].promotion() == Some(crate::chess::piece::PromotionPieceKind::Queen);
            if must { assert!(cnt == 1); }
        } else {
            assert!(cnt == 1);
        }
        i += 1;
    }
    let mut j = 0;
    while j < n {
        let mut found = false;
        let mut i = 0;
        while i < n_legal { if raw_of(legal[i]) == out[j] { found = true; } i += 1; }
        assert!(found);
        j += 1;
    }
    if !loud { assert!(n == n_legal); }
    kani::cover!(use_hash && k0.is_some() && k1.is_some());
    std::mem::forget(ctx);
    std::mem::forget(ps);
    std::mem::forget(ts);
    std::mem::forget(ctl);
    std::mem::forget(game);
}
