//! C10 — the staged move picker yields every legal move exactly once, for EVERY content of
//! the ordering tables (hash move, killers, counter move, history scores); position concrete.
use super::pos::{self, BPos};
use super::stubs::{move_of, raw_of};
use crate::chess::game::{CastleRights, Game, History};
use crate::chess::moves::{Move, MoveList};
use crate::chess::player::{ByPlayer, Player};
use crate::chess::zobrist::ZobristHash;
use crate::engine::eval::{IncrementalEvalFields, PhasedEval};
use crate::engine::options::EngineOptions;
use crate::engine::search::move_picker::MovePicker;
use crate::engine::search::time_control::TimeStrategy;
use crate::engine::search::transposition::SearchTranspositionTableData;
use crate::engine::search::verif_access as sa;
use crate::engine::search::{SearchContext, SearchRestrictions, TimeControl};
use crate::engine::transposition_table::verif_access as tta;
use crate::engine::transposition_table::TranspositionTable;
use std::time::Instant;

pub fn stub_now() -> Instant { unsafe { core::mem::zeroed() } }
/// arbitrary history score for every look-up (a superset of all table contents)
pub fn stub_history_get(_h: &sa::HistoryTable, _p: Player, _m: Move) -> i32 {
    let v: i32 = kani::any();
    kani::assume(v >= 0 && v <= sa::HISTORY_MAX_SCORE);
    v
}
/// for the larger corpus positions: an empty history table (all quiet scores equal, so the quiet order is the generation order);
/// hash move, killers and counter move stay arbitrary
pub fn stub_history_zero(_h: &sa::HistoryTable, _p: Player, _m: Move) -> i32 { 0 }

pub const MAXN: usize = 64;

// Per corpus position the move lists and exchange verdicts are CONCRETE data computed natively by the real
// generate_captures / generate_quiets / see of this tree (driver dump). The picker's own staging, scoring,
// selection and cursor logic is what runs symbolically.
pub static mut CAPS: [u16; MAXN] = [0; MAXN];
pub static mut NCAPS: usize = 0;
pub static mut QUIETS: [u16; MAXN] = [0; MAXN];
pub static mut NQUIETS: usize = 0;
pub static mut SEE_OK: [bool; MAXN] = [false; MAXN];

pub fn stub_gen_captures(_g: &Game, moves: &mut MoveList, _c: &mut crate::chess::movegen::MovegenCache) {
    let mut i = 0;
    unsafe { while i < NCAPS { moves.push(move_of(CAPS[i])); i += 1; } }
}
pub fn stub_gen_quiets(_g: &Game, moves: &mut MoveList, _c: &crate::chess::movegen::MovegenCache) {
    let mut i = 0;
    unsafe { while i < NQUIETS { moves.push(move_of(QUIETS[i])); i += 1; } }
}
pub fn stub_see(_g: &Game, mv: Move, _t: crate::engine::eval::Eval) -> bool {
    let w = raw_of(mv);
    let mut r = false;
    let mut i = 0;
    unsafe { while i < NCAPS { if CAPS[i] == w { r = SEE_OK[i]; } i += 1; } }
    r
}

fn any_opt_move() -> Option<Move> { let w: u16 = kani::any(); if w == 0 { None } else { Some(move_of(w)) } }

/// run a picker to exhaustion on a concrete position with symbolic ordering tables
pub fn run(p: &BPos, loud: bool, use_hash: bool, caps: &[u16], see_ok: &[bool], quiets: &[u16]) {
    let n_legal = caps.len() + quiets.len();
    unsafe {
        let mut i = 0;
        while i < caps.len() { CAPS[i] = caps[i]; SEE_OK[i] = see_ok[i]; i += 1; }
        NCAPS = caps.len();
        let mut i = 0;
        while i < quiets.len() { QUIETS[i] = quiets[i]; i += 1; }
        NQUIETS = quiets.len();
    }
    let legal = |i: usize| -> u16 { if i < caps.len() { caps[i] } else { quiets[i - caps.len()] } };
    let mut game = pos::game_of(p);
    // the previous move only selects the counter-move cell; fixed (e7e5 / none) so that the 8192-cell table is indexed concretely
    let has_prev: bool = kani::any();
    let prev = if has_prev { Some(move_of(52 | (36 << 6))) } else { None };
    game.history.push(History {
        mv: prev, captured: None, castle_rights: ByPlayer::new(CastleRights::none(), CastleRights::none()),
        en_passant_target: None, halfmove_clock: 0, zobrist: ZobristHash(0),
        incremental_eval: IncrementalEvalFields { phase_value: 0, piece_square_tables: PhasedEval::ZERO },
    });
    let options = EngineOptions { hash_size: 1, threads: 1, move_overhead: 0, syzygy_path: None };
    let restrictions = SearchRestrictions { depth: None };
    let (mut ts, ctl) = TimeStrategy::new(&game, &TimeControl::Infinite, &options);
    let tt: TranspositionTable<SearchTranspositionTableData> = tta::from_parts(Vec::new(), 0, 0, 0);
    let mut ps = sa::persistent_from(tt, sa::HistoryTable::new());
    let mut ctx = SearchContext::new(&mut ps, &mut ts, &options, &restrictions);
    // the ply only selects the killer slot; fixed
    let plies: u8 = 3;
    // killers: any two remembered moves (legal here or not, equal or not, present or not)
    let k1 = any_opt_move();
    let k0 = any_opt_move();
    sa::tables::killers_set(&mut ctx.killer_moves, plies as usize, [k0, k1]);
    // counter move: anything
    if let (Some(pm), Some(cm)) = (prev, any_opt_move()) { ctx.countermove_table.set(game.player, pm, cm); }
    // hash move: none, or any legal move
    let hi: usize = kani::any();
    kani::assume(hi < n_legal || n_legal == 0);
    let hash_move = if use_hash && !loud && n_legal > 0 { Some(move_of(legal(hi))) } else { None };
    #[cfg(test)] println!("REPLAY-CASE {{\"fen\":\"{}\",\"loud\":{},\"hash\":{:?},\"killers\":[{:?},{:?}],\"prev\":{:?}}}", pos::fen_of(p), loud, hash_move, k0, k1, prev);
    let mut picker = if loud { MovePicker::new_loud() } else { MovePicker::new(hash_move) };
    let mut out = [0u16; MAXN];
    let mut n = 0usize;
    let mut steps = 0usize;
    while steps <= n_legal {
        match picker.next(&game, &ctx, plies) {
            Some(m) => { assert!(n < MAXN); out[n] = raw_of(m); n += 1; }
            None => break,
        }
        steps += 1;
    }
    assert!(steps <= n_legal); // the stream ended (no more than n_legal yields)
    // every yielded move is legal and yielded once; every legal move (full) / capture or queen promotion (loud) is yielded
    let mut i = 0;
    while i < n_legal {
        let m = legal(i);
        let mut cnt = 0;
        let mut j = 0;
        while j < n { if out[j] == m { cnt += 1; } j += 1; }
        if loud {
            assert!(cnt <= 1);
            let mv = move_of(m);
            let must = mv.is_capture() || mv.promotion() == Some(crate::chess::piece::PromotionPieceKind::Queen);
            if must { assert!(cnt == 1); }
        } else {
            assert!(cnt == 1);
        }
        i += 1;
    }
    let mut j = 0;
    while j < n {
        let mut found = false;
        let mut i = 0;
        while i < n_legal { if legal(i) == out[j] { found = true; } i += 1; }
        assert!(found);
        j += 1;
    }
    if !loud { assert!(n == n_legal); }
    kani::cover!(k0.is_some() && k1.is_some() && has_prev);
    std::mem::forget(ctx);
    std::mem::forget(ps);
    std::mem::forget(ts);
    std::mem::forget(ctl);
    std::mem::forget(game);
}
