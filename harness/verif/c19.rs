//! C19 — transposition table: one inductive step from an arbitrary table satisfying the
//! representation invariant, for tables of 1, 2 and 3 slots (the code is size-generic).
use crate::chess::zobrist::ZobristHash;
use crate::engine::eval::Eval;
use crate::engine::search::transposition::{NodeBound, SearchTranspositionTableData};
use crate::engine::transposition_table::verif_access as tta;
use crate::engine::transposition_table::{TranspositionTable, TranspositionTableEntry, calculate_number_of_entries};
use super::stubs::{move_of, raw_of};

type D = SearchTranspositionTableData;
type E = TranspositionTableEntry<D>;
type T = TranspositionTable<D>;

fn any_data() -> D {
    let b: u8 = kani::any();
    kani::assume(b < 3);
    let mv: u16 = kani::any();
    D {
        bound: match b { 0 => NodeBound::Exact, 1 => NodeBound::Upper, _ => NodeBound::Lower },
        eval: Eval(kani::any()),
        depth: kani::any(),
        age: kani::any(),
        best_move: if mv == 0 { None } else { Some(move_of(mv)) },
    }
}
fn same(a: &D, b: &D) -> bool {
    a.bound == b.bound && a.eval == b.eval && a.depth == b.depth && a.age == b.age && a.best_move == b.best_move
}
fn copy(a: &D) -> D { D { bound: a.bound.clone(), eval: a.eval, depth: a.depth, age: a.age, best_move: a.best_move } }

/// arbitrary table of n slots under the invariant: a filled slot i holds a key with key % n == i;
/// `occupied` equals the number of filled slots
pub const MAXN: usize = 5;
fn any_table(n: usize) -> (T, [Option<(u64, D)>; MAXN]) {
    let mut shadow: [Option<(u64, D)>; MAXN] = [None, None, None, None, None];
    let mut data: Vec<Option<E>> = Vec::with_capacity(n);
    let mut occ = 0usize;
    let mut i = 0;
    while i < n {
        let filled: bool = kani::any();
        if filled {
            let key: u64 = kani::any();
            kani::assume(key % (n as u64) == i as u64);
            let d = any_data();
            shadow[i] = Some((key, copy(&d)));
            data.push(Some(E { key: ZobristHash(key), data: d }));
            occ += 1;
        } else {
            data.push(None);
        }
        i += 1;
    }
    let generation: u8 = kani::any();
    (tta::from_parts(data, generation, occ, 1), shadow)
}

fn invariant(tt: &T, n: usize) -> bool {
    let mut cnt = 0;
    let mut i = 0;
    let mut ok = tta::len(tt) == n;
    while i < n {
        if let Some(e) = tta::slot(tt, i) {
            cnt += 1;
            if e.key.0 % (n as u64) != i as u64 { ok = false; }
        }
        i += 1;
    }
    ok && cnt == tt.occupied
}

/// the statement's replacement policy (and nothing more than the statement):
///  - entries from earlier searches always give way;
///  - within one search an exact result is displaced only by another exact result or a deeper one;
/// `None` = the statement leaves the outcome open.
fn spec_replaces(old: &D, new: &D) -> Option<bool> {
    if new.age != old.age { return Some(true); }
    if old.bound == NodeBound::Exact { return Some(new.bound == NodeBound::Exact || new.depth > old.depth); }
    None
}

pub fn step_get(n: usize) {
    let (tt, shadow) = any_table(n);
    let key: u64 = kani::any();
    #[cfg(test)] println!("REPLAY-CASE {{\"op\":\"get\",\"n\":{},\"key\":{}}}", n, key);
    let idx = (key % n as u64) as usize;
    let got = tt.get(&ZobristHash(key));
    match &shadow[idx] {
        Some((k, d)) if *k == key => { assert!(got.is_some()); assert!(same(got.unwrap(), d)); }
        _ => assert!(got.is_none()),
    }
    kani::cover!(got.is_some());
    kani::cover!(shadow[idx].is_some() && got.is_none()); // colliding key in the slot
    std::mem::forget(tt);
}

pub fn step_insert(n: usize) {
    let (mut tt, shadow) = any_table(n);
    let pre_occ = tt.occupied;
    let key: u64 = kani::any();
    let d = any_data();
    let dcopy = copy(&d);
    #[cfg(test)] println!("REPLAY-CASE {{\"op\":\"insert\",\"n\":{},\"key\":{},\"new_age\":{},\"new_depth\":{},\"new_bound\":\"{:?}\",\"pre\":\"{:?}\"}}", n, key, dcopy.age, dcopy.depth, dcopy.bound, shadow[(key % n as u64) as usize].as_ref().map(|(k, d)| (*k, d.age, d.depth, d.bound.clone())));
    tt.insert(&ZobristHash(key), d);
    let idx = (key % n as u64) as usize;
    assert!(invariant(&tt, n));
    // other slots untouched
    let mut i = 0;
    while i < n {
        if i != idx {
            match (&shadow[i], tta::slot(&tt, i)) {
                (None, None) => {}
                (Some((k, d0)), Some(e)) => assert!(e.key.0 == *k && same(&e.data, d0)),
                _ => assert!(false),
            }
        }
        i += 1;
    }
    let now = tta::slot(&tt, idx).as_ref();
    assert!(now.is_some());
    let now = now.unwrap();
    let is_new = now.key.0 == key && same(&now.data, &dcopy);
    match &shadow[idx] {
        None => { assert!(is_new); assert!(tt.occupied == pre_occ + 1); }
        Some((k0, d0)) => {
            assert!(tt.occupied == pre_occ);
            let is_old = now.key.0 == *k0 && same(&now.data, d0);
            assert!(is_new || is_old); // the slot holds one of the two, whole
            match spec_replaces(d0, &dcopy) {
                Some(true) => assert!(is_new),
                Some(false) => assert!(is_old),
                None => {}
            }
            kani::cover!(is_old && !is_new);
        }
    }
    // what a probe now returns is the slot's current content, under full-key equality only
    let got = tt.get(&ZobristHash(key));
    assert!(got.is_some() == (now.key.0 == key));
    std::mem::forget(tt);
}

pub fn step_misc(n: usize) {
    let (mut tt, _shadow) = any_table(n);
    #[cfg(test)] println!("REPLAY-CASE {{\"op\":\"misc\",\"n\":{},\"occupied\":{},\"generation\":{}}}", n, tt.occupied, tt.generation);
    // fill indicator = fraction of occupied slots, in permille, rounded down
    let occ = tt.occupied;
    assert!(tt.occupancy() == 1000 * occ / n);
    let g = tt.generation;
    tt.new_generation();
    assert!(tt.generation == g.wrapping_add(1) && invariant(&tt, n));
    tt.resize(1); // same size: documented no-op
    assert!(invariant(&tt, n) && tt.occupied == occ);
    tt.reset();
    assert!(tt.occupied == 0 && tt.generation == 0 && tta::len(&tt) == n);
    let mut i = 0;
    while i < n { assert!(tta::slot(&tt, i).is_none()); i += 1; }
    assert!(tt.occupancy() == 0);
    kani::cover!(occ == n);
    std::mem::forget(tt);
}

macro_rules! inst { ($f:ident, $($name:ident $n:literal),*) => { $( #[kani::proof] #[kani::unwind(7)] pub fn $name() { $f($n); } )* }; }
inst!(step_get, c19_get_n1 1, c19_get_n2 2, c19_get_n3 3);
inst!(step_insert, c19_insert_n1 1, c19_insert_n2 2, c19_insert_n3 3);
inst!(step_misc, c19_misc_n1 1, c19_misc_n2 2, c19_misc_n3 3);

/// resizing to the smallest advertised size (0 MB) from any table empties it and leaves a table
/// that still answers probes and accepts inserts (no zero-slot table: the slot index is key % len)
#[kani::proof]
#[kani::unwind(5)]
pub fn c19_resize_smallest() {
    let (mut tt, _s) = any_table(2);
    let key: u64 = kani::any();
    #[cfg(test)] println!("REPLAY-CASE {{\"op\":\"resize0\",\"key\":{}}}", key);
    tt.resize(0);
    let n = tta::len(&tt);
    assert!(n == calculate_number_of_entries::<D>(0));
    assert!(tt.occupied == 0 && tt.generation == 0);
    assert!(n >= 1);
    assert!(tt.get(&ZobristHash(key)).is_none());
    let d = any_data();
    tt.insert(&ZobristHash(key), d);
    assert!(tt.get(&ZobristHash(key)).is_some());
    assert!(tt.occupied == 1);
    kani::cover!(true);
    std::mem::forget(tt);
}

/// a table CREATED with the smallest advertised size (0 MB) is usable as well (new() goes through resize())
#[kani::proof]
#[kani::unwind(5)]
pub fn c19_new_smallest() {
    let key: u64 = kani::any();
    #[cfg(test)] println!("REPLAY-CASE {{\"op\":\"new0\",\"key\":{}}}", key);
    let mut tt: T = TranspositionTable::new(0);
    let n = tta::len(&tt);
    assert!(n >= 1 && n == calculate_number_of_entries::<D>(0));
    assert!(tt.get(&ZobristHash(key)).is_none());
    tt.insert(&ZobristHash(key), any_data());
    assert!(tt.get(&ZobristHash(key)).is_some() && tt.occupied == 1);
    kani::cover!(true);
    std::mem::forget(tt);
}

/// the replacement predicate itself against the statement, all pairs of entries
#[kani::proof]
pub fn c19_overwrite_policy() {
    use crate::engine::transposition_table::TTOverwriteable;
    let old = any_data();
    let new = any_data();
    #[cfg(test)] println!("REPLAY-CASE {{\"old\":\"{:?}\",\"new\":\"{:?}\"}}", old, new);
    let r = old.should_overwrite_with(&new);
    match spec_replaces(&old, &new) { Some(b) => assert!(r == b), None => {} }
    kani::cover!(!r);
    kani::cover!(r && new.age == old.age);
}
