//! C02 — make/unmake follows the rules and is exactly reversible; the three board views agree.
use super::pos::{self, BPos};
use super::step::{self, Pre};
use super::stubs::{move_of, raw_of};
use crate::chess::game::Game;

// C02 is about placement/state; key and accumulator CONTENT is C03/C15's subject. Their update calls are
// replaced by no-ops here so that the (zero) tables do not enter the formula.
use crate::chess::game::CastleRightsSide;
use crate::chess::piece::Piece;
use crate::chess::player::Player;
use crate::chess::square::Square;
use crate::chess::zobrist::ZobristHash;
use crate::engine::eval::IncrementalEvalFields;
pub fn nop_toggle_piece(_z: &mut ZobristHash, _s: Square, _p: Piece) {}
pub fn nop_toggle_castle(_z: &mut ZobristHash, _p: Player, _s: CastleRightsSide) {}
pub fn nop_set_ep(_z: &mut ZobristHash, _a: Option<Square>, _b: Option<Square>) {}
pub fn nop_toggle_side(_z: &mut ZobristHash) {}
pub fn nop_eval_set(_e: &mut IncrementalEvalFields, _s: Square, _p: Piece) {}
pub fn nop_eval_remove(_e: &mut IncrementalEvalFields, _s: Square, _p: Piece) {}

fn any_sq() -> usize { let i: usize = kani::any(); kani::assume(i < 64); i }

#[cfg(test)]
fn show(pre: &Pre, w: u16) { println!("REPLAY-CASE {{\"fen\":\"{}\",\"clock\":{},\"plies\":{},\"move\":\"{}\"}}", pos::fen_of(&pre.p), pre.clock, pre.plies, pos::move_text(w)); }

/// make_move produces the position the rules prescribe; undo_move restores everything
pub fn make_undo(kind: usize, side: u8) {
    let (pre, mut g, w, m) = step::any_case(kind, side);
    let sq = any_sq();
    #[cfg(test)] show(&pre, w);
    let z0 = g.zobrist.clone();
    let e0 = g.incremental_eval.clone();
    assert!(step::game_is(&g, &pre.p, pre.clock, pre.plies, pre.hist_len, sq)); // sanity of the bridge
    g.make_move(move_of(w));
    let want = step::expected_after(&pre.p, w, &m);
    assert!(pos::bpos_of_bitboards(&g).pcs == want.pcs);                    // placement incl. rook hop, ep victim, promotion
    assert!(pos::bpos_of_bitboards(&g).white_to_move == want.white_to_move);
    assert!(pos::bpos_of_bitboards(&g).rights == want.rights);
    assert!(pos::bpos_of_bitboards(&g).ep == want.ep);
    assert!(step::game_is(&g, &want, step::expected_clock(&pre, &m), pre.plies + 1, pre.hist_len + 1, sq));
    kani::cover!(true); // reachability witness: some legal move of this kind exists and was made
    kani::cover!(m.ep);
    kani::cover!(m.castle);
    kani::cover!(m.capture && pos::raw_promo(w) != 0);
    g.undo_move();
    assert!(step::game_is(&g, &pre.p, pre.clock, pre.plies, pre.hist_len, sq));
    assert!(g.zobrist == z0);
    assert!(g.incremental_eval.phase_value == e0.phase_value && g.incremental_eval.piece_square_tables == e0.piece_square_tables);
    std::mem::forget(g);
}

/// null move: only side, ep target, ply counter and history change; take-back restores everything
#[kani::proof]
#[kani::stub(crate::chess::zobrist::ZobristHash::toggle_piece_on_square, nop_toggle_piece)]
#[kani::stub(crate::chess::zobrist::ZobristHash::toggle_castle_rights, nop_toggle_castle)]
#[kani::stub(crate::chess::zobrist::ZobristHash::set_en_passant, nop_set_ep)]
#[kani::stub(crate::chess::zobrist::ZobristHash::toggle_side_to_play, nop_toggle_side)]
#[kani::stub(crate::engine::eval::IncrementalEvalFields::set_at, nop_eval_set)]
#[kani::stub(crate::engine::eval::IncrementalEvalFields::remove_at, nop_eval_remove)]
pub fn c02_null_undo() {
    let (pre, mut g) = step::any_pre();
    let sq = any_sq();
    #[cfg(test)] show(&pre, 0);
    let z0 = g.zobrist.clone();
    g.make_null_move();
    let mut want = pre.p;
    want.white_to_move = !pre.p.white_to_move;
    want.ep = 64;
    assert!(step::game_is(&g, &want, pre.clock, pre.plies + 1, pre.hist_len + 1, sq));
    g.undo_null_move();
    assert!(step::game_is(&g, &pre.p, pre.clock, pre.plies, pre.hist_len, sq));
    assert!(g.zobrist == z0);
    kani::cover!(pre.p.ep < 64);
    std::mem::forget(g);
}

/// stack discipline: make; null; take back null; take back  (the nesting a search performs)
pub fn nested_make_null(kind: usize, side: u8) {
    let (pre, mut g, w, m) = step::any_case(kind, side);
    let sq = any_sq();
    #[cfg(test)] show(&pre, w);
    g.make_move(move_of(w));
    let mid = step::expected_after(&pre.p, w, &m);
    let c1 = step::expected_clock(&pre, &m);
    g.make_null_move();
    g.undo_null_move();
    assert!(step::game_is(&g, &mid, c1, pre.plies + 1, pre.hist_len + 1, sq));
    g.undo_move();
    assert!(step::game_is(&g, &pre.p, pre.clock, pre.plies, pre.hist_len, sq));
    kani::cover!(true);
    kani::cover!(mid.ep < 64);
    std::mem::forget(g);
}

/// stack discipline: null; make; take back; take back null
pub fn nested_null_make(kind: usize, side: u8) {
    let (pre, mut g) = step::any_pre();
    if side < 2 { kani::assume(pre.p.white_to_move == (side == 0)); }
    let sq = any_sq();
    g.make_null_move();
    let mut flipped = pre.p;
    flipped.white_to_move = !pre.p.white_to_move;
    flipped.ep = 64;
    // after a null move the opponent must not be capturable... i.e. the position must still be valid:
    kani::assume(pos::valid(&flipped));
    let (w, m) = step::any_legal(&flipped);
    if kind < 6 { kani::assume(m.kind == kind); }
    #[cfg(test)] show(&pre, w);
    g.make_move(move_of(w));
    let want = step::expected_after(&flipped, w, &m);
    assert!(step::game_is(&g, &want, step::expected_clock(&pre, &m), pre.plies + 2, pre.hist_len + 2, sq));
    g.undo_move();
    assert!(step::game_is(&g, &flipped, pre.clock, pre.plies + 1, pre.hist_len + 1, sq));
    g.undo_null_move();
    assert!(step::game_is(&g, &pre.p, pre.clock, pre.plies, pre.hist_len, sq));
    kani::cover!(true);
    kani::cover!(m.capture);
    std::mem::forget(g);
}
