//! C04 (kernels) — panic/overflow/index freedom of the arithmetic on the search path, with
//! Kani's overflow, bounds and unwrap checks ON (debug semantics, overflow-checks=on).
use crate::chess::player::Player;
use crate::chess::zobrist::ZobristHash;
use crate::engine::eval::Eval;
use crate::engine::search::transposition::{NodeBound, SearchTranspositionTableData};
use crate::engine::search::verif_access as sa;
use crate::engine::transposition_table::verif_access as tta;
use crate::engine::transposition_table::{TranspositionTable, TranspositionTableEntry};
use super::stubs::move_of;

const MATE: i16 = 32000;

/// Aspiration window along an arbitrary fail-low / fail-high history.
/// Model of what negamax can return is only its documented range: a value in [-32000, 32000]
/// that is <= alpha (fail low) or >= beta (fail high). Everything else is the real Window code.
#[kani::proof]
#[kani::unwind(26)]
pub fn c04_aspiration_history() {
    let eval0: i16 = kani::any();
    kani::assume(eval0 >= -MATE && eval0 <= MATE);
    let (mut alpha, mut beta, mut width) = sa::aspiration::around(Eval(eval0), sa::ASPIRATION_WINDOW_SIZE);
    assert!(alpha.0 <= eval0 && eval0 <= beta.0);
    assert!(alpha.0 < beta.0);
    let steps: u8 = kani::any();
    kani::assume(steps <= 24);
    #[cfg(test)] let mut hist = String::new();
    let mut i = 0u8;
    while i < steps {
        let low: bool = kani::any();
        let (a0, b0, w0) = (alpha, beta, width);
        #[cfg(test)] { hist.push(if low { 'L' } else { 'H' }); }
        #[cfg(test)] println!("REPLAY-CASE {{\"eval0\":{},\"history\":\"{}\",\"alpha\":{},\"beta\":{},\"width\":{}}}", eval0, hist, alpha.0, beta.0, width.0);
        if low {
            // a fail low needs some score in [-32000, 32000] that is <= alpha
            kani::assume(alpha.0 >= -MATE);
            let r = sa::aspiration::widen_down(alpha, beta, width);
            alpha = r.0; beta = r.1; width = r.2;
            assert!(alpha.0 < a0.0 || alpha.0 == i16::MIN); // really widened (or already fully open)
            assert!(beta.0 == b0.0);
        } else {
            kani::assume(beta.0 <= MATE);
            let r = sa::aspiration::widen_up(alpha, beta, width);
            alpha = r.0; beta = r.1; width = r.2;
            assert!(beta.0 > b0.0 || beta.0 == i16::MAX);
            assert!(alpha.0 == a0.0);
        }
        assert!(alpha.0 < beta.0);
        assert!(width.0 >= w0.0);
        i += 1;
    }
    // termination of the aspiration loop: no history of 24 widenings exists, whatever the search returns
    assert!(i < 24);
    kani::cover!(steps == 16);
}

/// A new search may start after any number of earlier searches: new_generation from any generation.
#[kani::proof]
pub fn c04_tt_new_generation() {
    let generation: u8 = kani::any();
    #[cfg(test)] println!("REPLAY-CASE {{\"generation\":{}}}", generation);
    let mut tt: TranspositionTable<SearchTranspositionTableData> = tta::from_parts(Vec::new(), generation, 0, 0);
    tt.new_generation();
    assert!(tt.generation != generation);
    kani::cover!(generation == 255);
    std::mem::forget(tt);
}

/// Score arithmetic used by the search: negation, mate scores, mate-distance adjustment.
#[kani::proof]
pub fn c04_eval_ops() {
    let x: i16 = kani::any();
    let ply: u8 = kani::any();
    #[cfg(test)] println!("REPLAY-CASE {{\"x\":{},\"ply\":{}}}", x, ply);
    let n = -Eval(x);
    assert!(n.0 == if x == i16::MIN { i16::MAX } else { -x });
    let m = Eval::mate_in(ply);
    let d = Eval::mated_in(ply);
    assert!(m.0 == MATE - ply as i16 && d.0 == -MATE + ply as i16);
    if x >= -MATE && x <= MATE {
        // every score a node can return, every ply
        let stored = Eval(x).with_mate_distance_from_position(ply);
        let back = stored.with_mate_distance_from_root(ply);
        assert!(back.0 == x);
        assert!(stored.0 >= -MATE - 255 && stored.0 <= MATE + 255);
    }
    kani::cover!(x > 31900 && ply == 255);
}

/// History heuristic counters: from ANY stored score in [0, max] and any depth: bounded, no overflow.
/// (cell fixed to e2e4/white: the arithmetic does not depend on the cell; in-range indexing is c04_history_index)
#[kani::proof]
pub fn c04_history_bonus() {
    let mut h = sa::HistoryTable::new();
    let mv = move_of(12 | (28 << 6));
    let stored: i32 = kani::any();
    kani::assume(stored >= 0 && stored <= sa::HISTORY_MAX_SCORE);
    let d: u8 = kani::any();
    #[cfg(test)] println!("REPLAY-CASE {{\"stored\":{},\"depth\":{}}}", stored, d);
    sa::tables::history_set(&mut h, Player::White, mv, stored);
    h.add_bonus_for(Player::White, mv, d);
    let s = h.get(Player::White, mv);
    let want = stored as i64 + (d as i64) * (d as i64);
    assert!(s as i64 == if want > sa::HISTORY_MAX_SCORE as i64 { sa::HISTORY_MAX_SCORE as i64 } else { want });
    kani::cover!(d == 255 && stored == sa::HISTORY_MAX_SCORE);
    std::mem::forget(h);
}

/// every move encoding indexes the history / counter-move tables in range
#[kani::proof]
pub fn c04_history_index() {
    let h = sa::HistoryTable::new();
    let c = sa::CountermoveTable::new();
    let w: u16 = kani::any();
    kani::assume(w != 0);
    let white: bool = kani::any();
    let pl = if white { Player::White } else { Player::Black };
    #[cfg(test)] println!("REPLAY-CASE {{\"mv\":{}}}", w);
    assert!(h.get(pl, move_of(w)) == 0);
    assert!(c.get(pl, move_of(w)).is_none());
    kani::cover!(w == 0xffff);
    std::mem::forget(h);
    std::mem::forget(c);
}

/// Killer slots for every ply the tables are sized for; second slot receives the old first; no duplicates.
#[kani::proof]
pub fn c04_killers() {
    let mut k = sa::KillersTable::new();
    let plies: u8 = kani::any();
    kani::assume((plies as usize) < sa::MAX_SEARCH_DEPTH_SIZE);
    let a: u16 = kani::any();
    let b: u16 = kani::any();
    kani::assume(a != 0 && b != 0);
    #[cfg(test)] println!("REPLAY-CASE {{\"plies\":{},\"a\":{},\"b\":{}}}", plies, a, b);
    k.try_push(plies, move_of(a));
    assert!(k.get_0(plies) == Some(move_of(a)) && k.get_1(plies).is_none());
    k.try_push(plies, move_of(b));
    if a == b {
        assert!(k.get_0(plies) == Some(move_of(a)) && k.get_1(plies).is_none());
    } else {
        assert!(k.get_0(plies) == Some(move_of(b)) && k.get_1(plies) == Some(move_of(a)));
    }
    kani::cover!(plies == 254 && a != b);
    std::mem::forget(k);
}

/// LMR table look-up and depth reduction for every depth and move count.
#[kani::proof]
pub fn c04_lmr_and_reduction() {
    let depth: u8 = kani::any();
    let count: usize = kani::any();
    let in_check: bool = kani::any();
    #[cfg(test)] println!("REPLAY-CASE {{\"depth\":{},\"count\":{}}}", depth, count);
    let r = sa::lmr_reduction(depth, count);
    let v = sa::negamax::depth_reduction(r, in_check);
    assert!(v >= 1);
    assert!(v == core::cmp::max(1, r.saturating_sub(in_check as u8)));
    let _ = depth.saturating_sub(v);
    kani::cover!(depth == 255 && count > 63);
}

/// Slot index for any key and any non-empty table length.
#[kani::proof]
#[kani::unwind(6)]
pub fn c04_tt_index() {
    let n: usize = kani::any();
    kani::assume(n >= 1 && n <= 4);
    let key: u64 = kani::any();
    #[cfg(test)] println!("REPLAY-CASE {{\"n\":{},\"key\":{}}}", n, key);
    let mut data: Vec<Option<TranspositionTableEntry<SearchTranspositionTableData>>> = Vec::new();
    let mut i = 0;
    while i < n { data.push(None); i += 1; }
    let tt = tta::from_parts(data, 0, 0, 1);
    let idx = tta::entry_idx(&tt, &ZobristHash(key));
    assert!(idx < n && idx as u64 == key % (n as u64));
    assert!(tt.get(&ZobristHash(key)).is_none());
    kani::cover!(n == 3);
    std::mem::forget(tt);
}

/// history decay between searches: every cell is divided by the factor (the cell is symbolic, so every cell is covered)
#[kani::proof]
#[kani::unwind(66)]
pub fn c04_history_decay() {
    let mut h = sa::HistoryTable::new();
    let w: u16 = kani::any();
    kani::assume(w != 0);
    let white: bool = kani::any();
    let pl = if white { Player::White } else { Player::Black };
    let v: i32 = kani::any();
    kani::assume(v >= 0 && v <= sa::HISTORY_MAX_SCORE);
    #[cfg(test)] println!("REPLAY-CASE {{\"mv\":{},\"value\":{}}}", w, v);
    sa::tables::history_set(&mut h, pl, move_of(w), v);
    h.decay(sa::HISTORY_DECAY_FACTOR);
    assert!(h.get(pl, move_of(w)) == v / 8);
    assert!(sa::HISTORY_DECAY_FACTOR == 8);
    kani::cover!(v > 64);
    std::mem::forget(h);
}

/// nodes-per-second statistic: any node count, any elapsed time (zero included) - no panic
#[kani::proof]
pub fn c04_nodes_per_second() {
    let nodes: u64 = kani::any();
    let secs: u64 = kani::any();
    let nanos: u32 = kani::any();
    kani::assume(nanos < 1_000_000_000);
    #[cfg(test)] println!("REPLAY-CASE {{\"nodes\":{},\"secs\":{},\"nanos\":{}}}", nodes, secs, nanos);
    let nps = crate::engine::util::metrics::nodes_per_second(nodes, std::time::Duration::new(secs, nanos));
    // (f64 rounding may exceed `nodes` by an ulp for counts above 2^53; only crash-freedom is the subject)
    if secs >= 1 && nodes < (1u64 << 52) { assert!(nps <= nodes); }
    kani::cover!(secs == 0 && nanos == 0);
}

/// the pruning-margin expressions of negamax.rs, restated with the REAL operators and the REAL constants, for every score a
/// node can hold and every depth at which they are evaluated: no i16 overflow
///   eval - REVERSE_FUTILITY_PRUNE_MARGIN_PER_PLY * depth   (depth <= REVERSE_FUTILITY_PRUNE_DEPTH)
///   eval + FUTILITY_PRUNE_MAX_MOVE_VALUE
///   beta - Eval(1), -beta + Eval(1), -alpha - Eval(1)         (window bounds in [MIN, MAX])
#[kani::proof]
pub fn c04_pruning_margins() {
    let e: i16 = kani::any();
    let depth: u8 = kani::any();
    kani::assume(e >= -MATE && e <= MATE);
    kani::assume(depth <= sa::REVERSE_FUTILITY_PRUNE_DEPTH);
    #[cfg(test)] println!("REPLAY-CASE {{\"eval\":{},\"depth\":{}}}", e, depth);
    let a = Eval(e) - sa::REVERSE_FUTILITY_PRUNE_MARGIN_PER_PLY * i16::from(depth);
    let b = Eval(e) + sa::FUTILITY_PRUNE_MAX_MOVE_VALUE;
    assert!(a.0 as i32 == e as i32 - 150 * depth as i32 || sa::REVERSE_FUTILITY_PRUNE_MARGIN_PER_PLY.0 != 150);
    assert!(b.0 > e);
    // null-window bounds. At a non-root node beta = -alpha(parent) with alpha(parent) <= MAX-1 (alpha < beta <= MAX), so beta >= -(MAX-1);
    // alpha = -beta(parent) >= -MAX, or MIN at the root (negation saturates); alpha < beta gives alpha <= MAX-1.
    let beta: i16 = kani::any();
    let alpha: i16 = kani::any();
    kani::assume(beta >= -(i16::MAX - 1) && alpha < i16::MAX);
    let _ = Eval(beta) - Eval(1);
    let _ = -Eval(beta) + Eval(1);
    let _ = -Eval(alpha) - Eval(1);
    kani::cover!(depth == 4 && e == -MATE);
}
