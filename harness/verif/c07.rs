//! C07 — attack tables equal first-principles geometry; every look-up lands inside its table.
use super::dump;
use super::geom;
use crate::chess::bitboard::Bitboard;
use crate::chess::movegen::tables;
use crate::chess::player::Player;
use crate::chess::square::Square;

#[cfg(not(test))]
fn load_sliders() { tables::verif_access::magics::load(&dump::ATTACKS, &dump::ROOK_NOT_MASKS, &dump::BISHOP_NOT_MASKS); }
#[cfg(test)]
fn load_sliders() { crate::init(); }

#[cfg(not(test))]
fn load_small() {
    tables::verif_access::knights::load(&dump::KNIGHT);
    tables::verif_access::king::load(&dump::KING);
    tables::verif_access::pawns::load(&dump::PAWN);
    tables::verif_access::between::load(&dump::BETWEEN);
}
#[cfg(test)]
fn load_small() { crate::init(); }

// ---- (i) straight-line geometry == naive square-by-square walk ---------------------------

#[kani::proof]
#[kani::unwind(9)]
fn c07_geom_rook() {
    let sq: u8 = kani::any();
    let occ: u64 = kani::any();
    kani::assume(sq < 64);
    kani::cover!(occ & geom::rook_att(1u64 << sq, 0) != 0);
    #[cfg(test)] println!("REPLAY-CASE {{\"sq\":{},\"occ\":\"{:#x}\"}}", sq, occ);
    assert!(geom::rook_att(1u64 << sq, occ) == geom::naive_rook(sq, occ));
}

#[kani::proof]
#[kani::unwind(9)]
fn c07_geom_bishop() {
    let sq: u8 = kani::any();
    let occ: u64 = kani::any();
    kani::assume(sq < 64);
    kani::cover!(occ & geom::bishop_att(1u64 << sq, 0) != 0);
    #[cfg(test)] println!("REPLAY-CASE {{\"sq\":{},\"occ\":\"{:#x}\"}}", sq, occ);
    assert!(geom::bishop_att(1u64 << sq, occ) == geom::naive_bishop(sq, occ));
}

#[kani::proof]
#[kani::unwind(9)]
fn c07_geom_leapers_between() {
    let a: u8 = kani::any();
    let b: u8 = kani::any();
    let white: bool = kani::any();
    kani::assume(a < 64 && b < 64);
    kani::cover!(geom::naive_between(a, b) != 0);
    #[cfg(test)] println!("REPLAY-CASE {{\"a\":{},\"b\":{},\"white\":{}}}", a, b, white);
    assert!(geom::knight_att(1u64 << a) == geom::naive_knight(a));
    assert!(geom::king_att(1u64 << a) == geom::naive_king(a));
    assert!(geom::pawn_att(1u64 << a, white) == geom::naive_pawn(a, white));
    assert!(geom::between(1u64 << a, 1u64 << b) == geom::naive_between(a, b));
}

// ---- (ii) real look-ups (real magics, not-masks and 87,988-entry table) == geometry ----------

fn rook_case(sq: u8, occ: u64) {
    #[cfg(test)] println!("REPLAY-CASE {{\"piece\":\"rook\",\"sq\":{},\"occ\":\"{:#x}\"}}", sq, occ);
    let got = tables::rook_attacks(Square::from_index(sq), Bitboard::new(occ)).as_u64();
    assert!(got == geom::rook_att(1u64 << sq, occ));
    // explicit in-table statement (Kani's pointer checks on get_unchecked say the same)
    assert!(tables::verif_access::magics::rook_index(Square::from_index(sq), Bitboard::new(occ)) < tables::verif_access::magics::TABLE_LEN);
}
fn bishop_case(sq: u8, occ: u64) {
    #[cfg(test)] println!("REPLAY-CASE {{\"piece\":\"bishop\",\"sq\":{},\"occ\":\"{:#x}\"}}", sq, occ);
    let got = tables::bishop_attacks(Square::from_index(sq), Bitboard::new(occ)).as_u64();
    assert!(got == geom::bishop_att(1u64 << sq, occ));
    assert!(tables::verif_access::magics::bishop_index(Square::from_index(sq), Bitboard::new(occ)) < tables::verif_access::magics::TABLE_LEN);
}

/// all eight squares of one rank (file symbolic), every 64-bit occupancy
fn rook_rank(rank: u8) {
    load_sliders();
    let file: u8 = kani::any();
    let occ: u64 = kani::any();
    kani::assume(file < 8);
    let sq = rank * 8 + file;
    kani::cover!(occ & geom::rook_att(1u64 << sq, 0) != 0);
    rook_case(sq, occ);
}
fn bishop_rank(rank: u8) {
    load_sliders();
    let file: u8 = kani::any();
    let occ: u64 = kani::any();
    kani::assume(file < 8);
    let sq = rank * 8 + file;
    kani::cover!(occ & geom::bishop_att(1u64 << sq, 0) != 0);
    bishop_case(sq, occ);
}

macro_rules! inst { ($f:ident, $($name:ident $r:literal),*) => { $( #[kani::proof] fn $name() { $f($r); } )* }; }
inst!(rook_rank, c07_rook_rank0 0, c07_rook_rank1 1, c07_rook_rank2 2, c07_rook_rank3 3, c07_rook_rank4 4, c07_rook_rank5 5, c07_rook_rank6 6, c07_rook_rank7 7);
inst!(bishop_rank, c07_bishop_rank0 0, c07_bishop_rank1 1, c07_bishop_rank2 2, c07_bishop_rank3 3, c07_bishop_rank4 4, c07_bishop_rank5 5, c07_bishop_rank6 6, c07_bishop_rank7 7);

/// thorough: the square fully symbolic in one query (2^70 cases)
#[kani::proof]
fn c07_rook_any() {
    load_sliders();
    let sq: u8 = kani::any();
    let occ: u64 = kani::any();
    kani::assume(sq < 64);
    kani::cover!(occ & geom::rook_att(1u64 << sq, 0) != 0);
    rook_case(sq, occ);
}
#[kani::proof]
fn c07_bishop_any() {
    load_sliders();
    let sq: u8 = kani::any();
    let occ: u64 = kani::any();
    kani::assume(sq < 64);
    kani::cover!(occ & geom::bishop_att(1u64 << sq, 0) != 0);
    bishop_case(sq, occ);
}

#[kani::proof]
fn c07_small_tables() {
    load_small();
    let a: u8 = kani::any();
    let b: u8 = kani::any();
    let white: bool = kani::any();
    kani::assume(a < 64 && b < 64);
    kani::cover!(geom::between(1u64 << a, 1u64 << b) != 0);
    #[cfg(test)] println!("REPLAY-CASE {{\"a\":{},\"b\":{},\"white\":{}}}", a, b, white);
    let (sa, sb) = (Square::from_index(a), Square::from_index(b));
    assert!(tables::knight_attacks(sa).as_u64() == geom::knight_att(1u64 << a));
    assert!(tables::king_attacks(sa).as_u64() == geom::king_att(1u64 << a));
    let pl = if white { Player::White } else { Player::Black };
    assert!(tables::pawn_attacks(sa, pl).as_u64() == geom::pawn_att(1u64 << a, white));
    assert!(tables::between(sa, sb).as_u64() == geom::between(1u64 << a, 1u64 << b));
}
