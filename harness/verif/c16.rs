//! C16 — blend kernel (for_phase between its inputs, weights never negative) and packing round trip.
use crate::engine::eval::PhasedEval;

/// every (middlegame, endgame) pair and every game phase a legal position can have
/// (up to 9 queens + 2 rooks + 2 bishops + 2 knights a side: 2*(36+4+2+2) = 88)
#[kani::proof]
pub fn c16_blend() {
    let mg: i16 = kani::any();
    let eg: i16 = kani::any();
    let phase: i16 = kani::any();
    kani::assume(phase >= 0 && phase <= 88);
    // pairs that can be packed at all (see c16_pack)
    kani::assume(!(eg == i16::MIN && mg < 0));
    #[cfg(test)] println!("REPLAY-CASE {{\"mg\":{},\"eg\":{},\"phase\":{}}}", mg, eg, phase);
    let pe = PhasedEval::new(mg, eg);
    let r = pe.for_phase(phase).0;
    let (lo, hi) = if mg < eg { (mg, eg) } else { (eg, mg) };
    assert!(lo <= r && r <= hi);
    if phase >= 24 { assert!(r == mg); }
    if phase == 0 { assert!(r == eg); }
    kani::cover!(phase > 24 && mg != eg);
    kani::cover!(phase == 12 && mg > eg);
}

/// packing two i16 halves into one i32 and reading them back
#[kani::proof]
pub fn c16_pack() {
    let mg: i16 = kani::any();
    let eg: i16 = kani::any();
    kani::assume(!(eg == i16::MIN && mg < 0)); // (eg << 16) + mg does not fit i32 there; no parameter is near
    #[cfg(test)] println!("REPLAY-CASE {{\"mg\":{},\"eg\":{}}}", mg, eg);
    let pe = PhasedEval::new(mg, eg);
    assert!(pe.midgame().0 == mg);
    assert!(pe.endgame().0 == eg);
    kani::cover!(mg < 0 && eg > 0);
}

/// negating a packed pair negates both halves (the colour-symmetry of every term rests on this)
#[kani::proof]
pub fn c16_neg_add() {
    let (a, b, c, d): (i16, i16, i16, i16) = (kani::any(), kani::any(), kani::any(), kani::any());
    kani::assume(a > -8000 && a < 8000 && b > -8000 && b < 8000 && c > -8000 && c < 8000 && d > -8000 && d < 8000);
    #[cfg(test)] println!("REPLAY-CASE {{\"a\":{},\"b\":{},\"c\":{},\"d\":{}}}", a, b, c, d);
    let x = PhasedEval::new(a, b);
    let y = PhasedEval::new(c, d);
    let n = -x;
    assert!(n.midgame().0 == -a && n.endgame().0 == -b);
    let s = x + y;
    assert!(s.midgame().0 == a + c && s.endgame().0 == b + d);
    let t = x - y;
    assert!(t.midgame().0 == a - c && t.endgame().0 == b - d);
    kani::cover!(a < 0 && c > 0);
}
