//! C16 — blend kernel (for_phase between its inputs, weights never negative) and packing round trip.
use crate::engine::eval::PhasedEval;

/// every (middlegame, endgame) pair and every game phase a legal position can have
/// (up to 9 queens + 2 rooks + 2 bishops + 2 knights a side: 2*(36+4+2+2) = 88)
#[kani::proof]
pub fn c16_blend() {
    let mg: i16 = kani::any();
    let eg: i16 = kani::any();
    let phase: i16 = kani::any();
    kani::assume(phase >= 0 && phase <= 88);
    // pairs that can be packed at all (see c16_pack)
    kani::assume(!(eg == i16::MIN && mg < 0));
    #[cfg(test)] println!("REPLAY-CASE {{\"mg\":{},\"eg\":{},\"phase\":{}}}", mg, eg, phase);
    let pe = PhasedEval::new(mg, eg);
    let r = pe.for_phase(phase).0;
    let (lo, hi) = if mg < eg { (mg, eg) } else { (eg, mg) };
    assert!(lo <= r && r <= hi);
    if phase >= 24 { assert!(r == mg); }
    if phase == 0 { assert!(r == eg); }
    kani::cover!(phase > 24 && mg != eg);
    kani::cover!(phase == 12 && mg > eg);
}

/// packing two i16 halves into one i32 and reading them back
#[kani::proof]
pub fn c16_pack() {
    let mg: i16 = kani::any();
    let eg: i16 = kani::any();
    kani::assume(!(eg == i16::MIN && mg < 0)); // (eg << 16) + mg does not fit i32 there; no parameter is near
    #[cfg(test)] println!("REPLAY-CASE {{\"mg\":{},\"eg\":{}}}", mg, eg);
    let pe = PhasedEval::new(mg, eg);
    assert!(pe.midgame().0 == mg);
    assert!(pe.endgame().0 == eg);
    kani::cover!(mg < 0 && eg > 0);
}

/// negating a packed pair negates both halves (the colour-symmetry of every term rests on this)
#[kani::proof]
pub fn c16_neg_add() {
    let (a, b, c, d): (i16, i16, i16, i16) = (kani::any(), kani::any(), kani::any(), kani::any());
    kani::assume(a > -8000 && a < 8000 && b > -8000 && b < 8000 && c > -8000 && c < 8000 && d > -8000 && d < 8000);
    #[cfg(test)] println!("REPLAY-CASE {{\"a\":{},\"b\":{},\"c\":{},\"d\":{}}}", a, b, c, d);
    let x = PhasedEval::new(a, b);
    let y = PhasedEval::new(c, d);
    let n = -x;
    assert!(n.midgame().0 == -a && n.endgame().0 == -b);
    let s = x + y;
    assert!(s.midgame().0 == a + c && s.endgame().0 == b + d);
    let t = x - y;
    assert!(t.midgame().0 == a - c && t.endgame().0 == b - d);
    kani::cover!(a < 0 && c > 0);
}

// ---------------------------------------------------------------------------------------
// colour symmetry and boundedness of the evaluation terms, real parameter tables loaded
// ---------------------------------------------------------------------------------------
use super::dump;
use super::pos::{self, BPos, B, K, N, P, Q, R};
use crate::chess::bitboard::Bitboard;
use super::geom;
use crate::engine::eval::{self, piece_square_tables, verif_access as ea, IncrementalEvalFields};

#[cfg(not(test))]
fn load_tables() {
    unsafe { piece_square_tables::TABLES = dump::PST; }
    ea::pawns::load(&dump::PP_MASKS, &dump::PP_PST);
}
#[cfg(test)]
fn load_tables() { crate::init(); }

fn bound_officers(p: &BPos, per_kind: u32) {
    let mut c = 0;
    while c < 2 { let mut k = 1; while k < 5 { kani::assume(p.pcs[c][k].count_ones() <= per_kind); k += 1; } c += 1; }
}

#[cfg(test)]
fn show(p: &BPos) { println!("REPLAY-CASE {{\"fen\":\"{}\",\"mirror\":\"{}\"}}", pos::fen_of(p), pos::fen_of(&pos::mirror(p))); }

/// piece-square + material term: term(mirror(P)) == -term(P); halves stay inside i16 for reachable material
#[kani::proof]
#[kani::unwind(66)]
pub fn c16_sym_pst() {
    load_tables();
    let p = pos::any_valid();
    kani::assume(pos::legal_material(&p));
    #[cfg(test)] show(&p);
    let (g, gm) = (pos::game_of(&p), pos::game_of(&pos::mirror(&p)));
    let a = piece_square_tables::eval(&g.board);
    let b = piece_square_tables::eval(&gm.board);
    assert!(-a == b);
    assert!(a.midgame().0 as i32 == -(b.midgame().0 as i32) && a.endgame().0 as i32 == -(b.endgame().0 as i32));
    kani::cover!(a.midgame().0 > 500);
    std::mem::forget(g);
    std::mem::forget(gm);
}

/// game phase counter is colour-blind
#[kani::proof]
#[kani::unwind(66)]
pub fn c16_sym_phase() {
    let p = pos::any_valid();
    #[cfg(test)] show(&p);
    let (g, gm) = (pos::game_of(&p), pos::game_of(&pos::mirror(&p)));
    let (a, b) = (IncrementalEvalFields::init(&g.board), IncrementalEvalFields::init(&gm.board));
    assert!(a.phase_value == b.phase_value);
    // and it is what the statement calls the game phase: 1 per minor, 2 per rook, 4 per queen
    let cnt = |k: usize| (p.pcs[0][k] | p.pcs[1][k]).count_ones() as i16;
    assert!(a.phase_value == cnt(N) + cnt(B) + 2 * cnt(R) + 4 * cnt(Q));
    kani::cover!(a.phase_value > 24);
    std::mem::forget(g);
    std::mem::forget(gm);
}

/// bishop-pair term
#[kani::proof]
pub fn c16_sym_material() {
    let p = pos::any_valid();
    #[cfg(test)] show(&p);
    let (g, gm) = (pos::game_of(&p), pos::game_of(&pos::mirror(&p)));
    let mut t = ea::Trace::new();
    let a = ea::material_eval::<false>(&g, &mut t);
    let b = ea::material_eval::<false>(&gm, &mut t);
    assert!(-a == b);
    kani::cover!(a != PhasedEval::ZERO);
    std::mem::forget(g);
    std::mem::forget(gm);
}

/// passed-pawn term (real masks and table loaded)
#[kani::proof]
#[kani::unwind(10)]
pub fn c16_sym_pawns() {
    load_tables();
    let p = pos::any_valid();
    kani::assume(p.pcs[0][P].count_ones() <= 8 && p.pcs[1][P].count_ones() <= 8);
    #[cfg(test)] show(&p);
    let (g, gm) = (pos::game_of(&p), pos::game_of(&pos::mirror(&p)));
    let mut t = ea::Trace::new();
    let a = ea::pawn_eval::<false>(&g, &mut t);
    let b = ea::pawn_eval::<false>(&gm, &mut t);
    assert!(-a == b);
    kani::cover!(a != PhasedEval::ZERO);
    std::mem::forget(g);
    std::mem::forget(gm);
}

/// mobility / king-safety term, officers bounded (the term loops over them); geometry stubs
pub fn sym_mobility(per_kind: u32) {
    let p = pos::any_valid();
    bound_officers(&p, per_kind);
    #[cfg(test)] show(&p);
    let (g, gm) = (pos::game_of(&p), pos::game_of(&pos::mirror(&p)));
    let mut t = ea::Trace::new();
    let a = ea::mobility_eval::<false>(&g, &mut t);
    let b = ea::mobility_eval::<false>(&gm, &mut t);
    assert!(-a == b);
    kani::cover!(a != PhasedEval::ZERO);
    std::mem::forget(g);
    std::mem::forget(gm);
}

/// the whole evaluation from the mover's view: eval(mirror(P)) == eval(P); strictly inside the non-mate band; bounded material
pub fn total(per_kind: u32, pawns: u32) {
    load_tables();
    let p = pos::any_valid();
    bound_officers(&p, per_kind);
    kani::assume(p.pcs[0][P].count_ones() <= pawns && p.pcs[1][P].count_ones() <= pawns);
    #[cfg(test)] show(&p);
    let (mut g, mut gm) = (pos::game_of(&p), pos::game_of(&pos::mirror(&p)));
    g.incremental_eval = IncrementalEvalFields::init(&g.board);
    gm.incremental_eval = IncrementalEvalFields::init(&gm.board);
    let a = eval::eval(&g);
    let b = eval::eval(&gm);
    assert!(a == b);
    assert!(a.0 > -31900 && a.0 < 31900);
    kani::cover!(a.0 > 300);
    std::mem::forget(g);
    std::mem::forget(gm);
}

// ---------------------------------------------------------------------------------------
// per-cell antisymmetry lemmas (cheap, unbounded): every term is a SUM over men of a per-man value
// (by inspection of the loops in piece_square_tables::eval, pawn_structure::calculate_passed_pawn_bonus and
// phase_value; the sum form of init() is c15_init_is_sum), so term(mirror(P)) == -term(P) follows from the
// per-man statement below by commutativity of addition - the step a SAT solver cannot do on 64-term sums.
// ---------------------------------------------------------------------------------------
use crate::chess::piece::Piece;
use crate::chess::player::Player;
use crate::chess::square::Square;

/// piece-square(+material) value of a man == minus the value of the colour-swapped man on the rank-flipped square;
/// its game-phase contribution is colour-blind. Real tables, every (colour, kind, square).
#[kani::proof]
pub fn c16_cell_pst() {
    load_tables();
    let (c, k, sq): (usize, usize, u8) = (kani::any(), kani::any(), kani::any());
    kani::assume(c < 2 && k < 6 && sq < 64);
    #[cfg(test)] println!("REPLAY-CASE {{\"colour\":{},\"kind\":{},\"square\":{}}}", c, k, sq);
    let a = piece_square_tables::piece_contributions(Square::from_index(sq), Piece::new(pos::player_of(c), pos::kind_of(k)));
    let b = piece_square_tables::piece_contributions(Square::from_index(sq ^ 56), Piece::new(pos::player_of(1 - c), pos::kind_of(k)));
    assert!(-a == b);
    assert!(a.midgame().0 as i32 == -(b.midgame().0 as i32) && a.endgame().0 as i32 == -(b.endgame().0 as i32));
    // magnitude: sixteen men of the dearest kind stay far inside an i16 half
    assert!(a.midgame().0.abs() < 1400 && a.endgame().0.abs() < 1400);
    kani::cover!(k == 4 && c == 1);
}

/// passed-pawn term per pawn: passed-ness and bonus are mirror images for the two colours. Real masks and table,
/// every square, every enemy pawn set.
#[kani::proof]
pub fn c16_cell_passed_pawn() {
    load_tables();
    let sq: u8 = kani::any();
    let theirs: u64 = kani::any();
    kani::assume(sq >= 8 && sq < 56);
    kani::assume(theirs & (geom::RANK_1 | geom::RANK_8) == 0);
    #[cfg(test)] println!("REPLAY-CASE {{\"square\":{},\"their_pawns\":\"{:#x}\"}}", sq, theirs);
    let w = eval::pawn_structure::is_passed(Square::from_index(sq), Player::White, Bitboard::new(theirs));
    let b = eval::pawn_structure::is_passed(Square::from_index(sq ^ 56), Player::Black, Bitboard::new(theirs.swap_bytes()));
    assert!(w == b);
    assert!(ea::pawns::mask(Player::White, Square::from_index(sq)).as_u64() == ea::pawns::mask(Player::Black, Square::from_index(sq ^ 56)).as_u64().swap_bytes());
    // a white pawn is passed iff no enemy pawn stands on its own or an adjacent file on any rank in front of it
    let f = sq % 8;
    let mut files = geom::FILE_A << f;
    if f > 0 { files |= geom::FILE_A << (f - 1); }
    if f < 7 { files |= geom::FILE_A << (f + 1); }
    let ahead = if sq / 8 == 7 { 0 } else { !0u64 << (8 * (sq / 8 + 1)) };
    // (pawns on the seventh rank count as passed by the engine's definition: nothing can stand in front on the eighth)
    if sq / 8 < 6 { assert!(w == (theirs & files & ahead == 0)); }
    assert!(-ea::pawns::pst(Player::White, Square::from_index(sq)) == ea::pawns::pst(Player::Black, Square::from_index(sq ^ 56)));
    kani::cover!(w && theirs != 0);
    kani::cover!(!w);
}

/// mobility / king-safety, per side and per officer kind: the term of `side` on P equals the term of the other side on mirror(P),
/// when `side` has at most one officer and it is of kind `kind` (0 = no officer at all: the pure king-zone term); every placement of
/// everything else (pawns, the other side's men, kings) is symbolic. The whole term is the sum over the officers (loops in
/// mobility_and_opp_king_safety_for) plus the king-zone count, which is decided here for the single-officer attack set.
pub fn mobility_one(kind: usize, side: u8) {
    let p = pos::any_valid();
    let c = side as usize;
    let mut k = 1;
    while k < 5 {
        if k == kind { kani::assume(p.pcs[c][k].count_ones() <= 1); } else { kani::assume(p.pcs[c][k] == 0); }
        k += 1;
    }
    #[cfg(test)] show(&p);
    let (g, gm) = (pos::game_of(&p), pos::game_of(&pos::mirror(&p)));
    let a = ea::mobility_side_term(&g, pos::player_of(c));
    let b = ea::mobility_side_term(&gm, pos::player_of(1 - c));
    assert!(a == b);
    kani::cover!(a != PhasedEval::ZERO);
    std::mem::forget(g);
    std::mem::forget(gm);
}

// ---------------------------------------------------------------------------------------
// composition lemma: the evaluation IS the blend of the sum of the four terms (the step the per-term lemmas rely on)
// ---------------------------------------------------------------------------------------
use crate::chess::game::Game;
static mut TERMS: [(i16, i16); 3] = [(0, 0); 3];
/// the three computed terms as uninterpreted functions of the game: each returns one arbitrary (but fixed) packed value
pub fn stub_material<const TRACE: bool>(_g: &Game, _t: &mut ea::Trace) -> PhasedEval { let (a, b) = unsafe { TERMS[0] }; PhasedEval::new(a, b) }
pub fn stub_mobility<const TRACE: bool>(_g: &Game, _t: &mut ea::Trace) -> PhasedEval { let (a, b) = unsafe { TERMS[1] }; PhasedEval::new(a, b) }
pub fn stub_pawns<const TRACE: bool>(_g: &Game, _t: &mut ea::Trace) -> PhasedEval { let (a, b) = unsafe { TERMS[2] }; PhasedEval::new(a, b) }

/// For ANY accumulator content and ANY values of the material, mobility/king-safety and pawn-structure terms, the real
/// `absolute_eval` / `eval` equal `for_phase(accumulators + material + mobility + pawns, phase)` seen from the side to move:
/// no term is skipped, scaled or made to depend on who is ahead. (Natively the three terms are the real functions; the replay
/// prints the position and compares against the same composition of the real terms.)
#[kani::proof]
#[kani::stub(crate::engine::eval::material::eval, stub_material)]
#[kani::stub(crate::engine::eval::mobility_and_king_safety::eval, stub_mobility)]
#[kani::stub(crate::engine::eval::pawn_structure::eval, stub_pawns)]
pub fn c16_compose() {
    load_tables();
    let p = pos::any_valid();
    let (mg, eg, phase): (i16, i16, i16) = (kani::any(), kani::any(), kani::any());
    kani::assume(mg > -12000 && mg < 12000 && eg > -12000 && eg < 12000 && phase >= 0 && phase <= 88);
    let mut i = 0;
    while i < 3 {
        let (a, b): (i16, i16) = (kani::any(), kani::any());
        kani::assume(a > -4000 && a < 4000 && b > -4000 && b < 4000);
        unsafe { TERMS[i] = (a, b); }
        i += 1;
    }
    #[cfg(test)]
    {
        // native replay: the three terms are the real functions and the accumulators are what init() gives for the position, so the
        // stub-world values cannot be imposed. The counterexample's position, the same position with either side stripped to its
        // king, and a few lopsided fixed positions are evaluated together with their colour-mirrored twins; the first pair whose
        // evaluations (from the mover's view) differ is reported - natively the PROPERTY is the oracle, not the composition lemma, so
        // that a property-preserving change of the composition (say, a new symmetric term) ends as a non-reproducing counterexample
        // (exit 2: the lemma set no longer covers the evaluation), never as a violation.
        let strip = |q: &BPos, c: usize| { let mut r = *q; let mut k = 0; while k < 5 { r.pcs[c][k] = 0; k += 1; } r.rights = [[false; 2]; 2]; r.ep = 64; r };
        let mut cands = vec![p, strip(&p, 0), strip(&p, 1)];
        for f in ["4k3/8/8/8/8/8/8/QQ2K3 w - - 0 1", "qq2k3/8/8/8/8/8/8/4K3 b - - 0 1", "4k3/8/8/8/8/8/8/QQ2K3 b - - 0 1", "qq2k3/8/8/8/8/8/8/4K3 w - - 0 1",
                  "k7/pppppppp/8/8/8/8/QQQQQQQQ/KQRRBBNN w - - 0 1", "kqrrbbnn/qqqqqqqq/8/8/8/8/PPPPPPPP/K7 b - - 0 1"] {
            cands.push(pos::bpos_of_bitboards(&Game::from_fen(f).unwrap()));
        }
        for q in cands {
            // only positions a game can reach (the property quantifies over legal positions; accumulators of 40-pawn boards overflow by design)
            if !pos::valid(&q) || !pos::legal_material(&q) { continue; }
            let qm = pos::mirror(&q);
            let (mut g, mut gm) = (pos::game_of(&q), pos::game_of(&qm));
            g.incremental_eval = IncrementalEvalFields::init(&g.board);
            gm.incremental_eval = IncrementalEvalFields::init(&gm.board);
            let (a, b) = (eval::eval(&g), eval::eval(&gm));
            if a != b || !(a.0 > -31900 && a.0 < 31900) {
                println!("REPLAY-CASE {{\"fen\":\"{}\",\"mirror\":\"{}\",\"eval\":{},\"eval_of_mirror\":{}}}", pos::fen_of(&q), pos::fen_of(&qm), a.0, b.0);
                panic!("evaluation differs between a position and its colour-mirrored twin (or leaves the non-mate band)");
            }
        }
        return;
    }
    #[allow(unreachable_code)]
    let mut g = pos::game_of(&p);
    g.incremental_eval = IncrementalEvalFields { phase_value: phase, piece_square_tables: PhasedEval::new(mg, eg) };
    let mut t = ea::Trace::new();
    let sum = g.incremental_eval.piece_square_tables + ea::material_eval::<false>(&g, &mut t) + ea::mobility_eval::<false>(&g, &mut t) + ea::pawn_eval::<false>(&g, &mut t);
    let want = sum.for_phase(phase);
    let got = eval::absolute_eval(&g);
    assert!(got == want);
    let mover = eval::eval(&g);
    assert!(mover == eval::Eval::from_white_eval(want, g.player));
    kani::cover!(want.0 > 1500);
    kani::cover!(want.0 < -1500);
    std::mem::forget(g);
}
