//! Shared by C02 / C03 / C15 / C11: arbitrary valid pre-state of the real `Game`, arbitrary
//! oracle-legal move, and the oracle's expectation for the post-state.
#![allow(dead_code)]
use super::geom::*;
use super::pos::{self, BPos, Made, K, P, R};
use super::stubs::{move_of, raw_of};
use crate::chess::game::{Game, History};
use crate::chess::moves::Move;
use crate::chess::player::{ByPlayer, Player};
use crate::chess::game::CastleRights;
use crate::chess::square::Square;
use crate::chess::zobrist::ZobristHash;
use crate::engine::eval::{IncrementalEvalFields, PhasedEval};

#[derive(Clone, Copy)]
pub struct Pre {
    pub p: BPos,
    pub clock: u32,
    pub plies: u32,
    pub hist_len: usize,
}

/// arbitrary valid position with arbitrary counters; history of length 0 or 1 (arbitrary content)
#[cfg(kani)]
pub fn any_pre() -> (Pre, Game) {
    let p = pos::any_valid();
    any_pre_of(p)
}

#[cfg(kani)]
pub fn any_pre_of(p: BPos) -> (Pre, Game) {
    let clock: u32 = kani::any();
    let plies: u32 = kani::any();
    kani::assume(clock < (1 << 30) && plies < (1 << 30) && plies >= 1);
    let mut g = pos::game_of(&p);
    g.halfmove_clock = clock;
    g.plies = plies;
    // one earlier entry, created by the engine's own code (a null move from an arbitrary carried key / clock / ep state would change the
    // position, so the entry is pushed on a scratch copy and moved over): no struct literal of History here, so that a refactoring of
    // History's fields does not stop every step harness from building
    {
        let mut scratch = pos::game_of(&p);
        scratch.zobrist = ZobristHash(kani::any());
        scratch.halfmove_clock = kani::any();
        scratch.make_null_move();
        let e = scratch.history.pop().unwrap();
        g.history.push(e);
        std::mem::forget(scratch);
    }
    (Pre { p, clock, plies, hist_len: 1 }, g)
}

/// arbitrary raw move that is exactly the encoding of a legal move of `p` (by C01: what the generator emits)
#[cfg(kani)]
pub fn any_legal(p: &BPos) -> (u16, Made) {
    let w: u16 = kani::any();
    kani::assume(w != 0);
    let m = pos::legal_move(p, pos::raw_src(w), pos::raw_dst(w), pos::raw_promo(w));
    kani::assume(m.is_some());
    let m = m.unwrap();
    kani::assume(m.raw == w);
    (w, m)
}

/// case split used by the step harnesses: moving kind (0..5, 6 = any) and side to move (0 white, 1 black, 2 = any)
#[cfg(kani)]
pub fn any_case(kind: usize, side: u8) -> (Pre, Game, u16, Made) {
    let p = pos::any_valid();
    if side < 2 { kani::assume(p.white_to_move == (side == 0)); }
    let (pre, g) = any_pre_of(p);
    let (w, m) = any_legal(&pre.p);
    if kind < 6 { kani::assume(m.kind == kind); }
    (pre, g, w, m)
}

/// The rules' post-position after legal move `m` (placement from the oracle's make; rights, ep, side).
pub fn expected_after(p: &BPos, w: u16, m: &Made) -> BPos {
    let us = p.us();
    let them = 1 - us;
    let after = m.after;
    // a castling right survives iff it existed and king and that rook still stand on their home squares
    let mut rights = [[false; 2]; 2];
    rights[0][0] = p.rights[0][0] && after[0][K] == 1 << 4 && after[0][R] & (1 << 7) != 0;
    rights[0][1] = p.rights[0][1] && after[0][K] == 1 << 4 && after[0][R] & 1 != 0;
    rights[1][0] = p.rights[1][0] && after[1][K] == 1 << 60 && after[1][R] & (1 << 63) != 0;
    rights[1][1] = p.rights[1][1] && after[1][K] == 1 << 60 && after[1][R] & (1 << 56) != 0;
    // en-passant target: the skipped square after a double pawn push, recorded only when an enemy pawn
    // stands beside the pushed pawn (the engine's documented convention, game.rs make_move)
    let src = pos::raw_src(w);
    let dst = pos::raw_dst(w);
    let db = 1u64 << dst;
    let double = m.kind == P && (if src > dst { src - dst } else { dst - src }) == 16;
    let ep = if double && (w_(db) | e(db)) & after[them][P] != 0 { (src + dst) / 2 } else { 64 };
    BPos { pcs: after, white_to_move: !p.white_to_move, rights, ep }
}
fn w_(b: u64) -> u64 { w(b) }

pub fn expected_clock(pre: &Pre, m: &Made) -> u32 { if m.capture || m.kind == P { 0 } else { pre.clock + 1 } }

/// every observable of the engine's Game equals (position q, clock, plies, history length)
pub fn game_is(g: &Game, q: &BPos, clock: u32, plies: u32, hist_len: usize, sq: usize) -> bool {
    let got = pos::bpos_of_bitboards(g);
    got == *q
        && g.halfmove_clock == clock
        && g.plies == plies
        && g.history.len() == hist_len
        && pos::views_agree_at(g, sq)
        && crate::chess::board::verif_access::square_raw(&g.board, sq) == pos::piece_at_bit(&q.pcs, 1u64 << sq)
}
