//! Replacements (`#[kani::stub]`) for the six table look-ups, justified by C07, and the
//! output monitor for move generators.
#![allow(dead_code)]
use super::geom;
use crate::chess::bitboard::Bitboard;
use crate::chess::moves::Move;
use crate::chess::player::Player;
use crate::chess::square::Square;

pub fn s_rook(s: Square, b: Bitboard) -> Bitboard { Bitboard::new(geom::rook_att(1u64 << s.idx(), b.as_u64())) }
pub fn s_bishop(s: Square, b: Bitboard) -> Bitboard { Bitboard::new(geom::bishop_att(1u64 << s.idx(), b.as_u64())) }
pub fn s_knight(s: Square) -> Bitboard { Bitboard::new(geom::knight_att(1u64 << s.idx())) }
pub fn s_king(s: Square) -> Bitboard { Bitboard::new(geom::king_att(1u64 << s.idx())) }
pub fn s_pawn(s: Square, p: Player) -> Bitboard { Bitboard::new(geom::pawn_att(1u64 << s.idx(), p == Player::White)) }
pub fn s_between(a: Square, b: Square) -> Bitboard { Bitboard::new(geom::between(1u64 << a.idx(), 1u64 << b.idx())) }

pub fn raw_of(m: Move) -> u16 { unsafe { core::mem::transmute::<Move, u16>(m) } }
pub fn move_of(w: u16) -> Move { unsafe { core::mem::transmute::<u16, Move>(w) } }

pub static mut WATCH: u16 = 0;
pub static mut COUNT: u32 = 0;
pub static mut TOTAL: u32 = 0;

/// stub for ArrayVec::<Move, 218>::push in generator harnesses: count pushes of the watched move
/// (generic because the stubbed method is; only ever instantiated with T = Move, 2 bytes)
pub fn monitor_push<T, const CAP: usize>(_v: &mut arrayvec::ArrayVec<T, CAP>, m: T) {
    let raw: u16 = unsafe { core::mem::transmute_copy::<T, u16>(&m) };
    unsafe {
        if raw == WATCH { COUNT += 1; }
        TOTAL += 1;
    }
    core::mem::forget(m);
}
